// Kernels.lean: Lean definitions of a whitelist of pure integer kernels of /repo, translated
// from the CURRENT source (go/ast + go/types) on every run.  Acme/Proofs/GenKernels.lean proves
// each generated definition equal to the hand-written model function, so that a change of such
// a Go function changes the generated Lean text and breaks a proof obligation.
//
// The translator covers a small, explicit subset of Go and FAILS LOUDLY (exit status 1 with a
// message naming the construct) on anything else: a rewrite outside the subset is reported, it
// is never mistranslated.
//
//	types        int (and named types over it) ↦ Int; intN / uintN / uint / uintptr ↦ BitVec N
//	             with the signedness kept by the translator; bool ↦ Bool (conditions ↦ Prop);
//	             float64 only in functions marked exactFloat, and there only as the conversion
//	             float64(integer) / an integral constant (↦ the exact integer);
//	             named types listed in kernelSpec.idTypes ↦ Nat (opaque identities: == / != only);
//	             a result of type error ↦ Option Cause (Cause = generated inductive of the sentinels)
//	statements   x := e, x = e, x op= e, x++, x--, var x T [= e], return e[, e...],
//	             if c {..} [else {..} | else if ..], switch [tag] { case C, D: .. default: .. }
//	             (no init statements, no break / fallthrough in a switch, no goto / labels, no
//	             shadowing); an if / switch none of whose branches jumps may assign outer
//	             variables (joined as a tuple);
//	             for [i,] x := range <parameterised slice / map> { .. } with return / break /
//	             continue ↦ a structurally recursive definition over List (see emit); no nested
//	             loops, no 3-clause for, no assignment to the range variables;
//	             x := <parameterised slice>[i] ↦ match GoSem.index? .. (the kernel then returns
//	             GoSem.Res: an index out of range is Res.panic)
//	expressions  literals and named constants (through go/types constant values), parameters and
//	             locals, + - * / % (truncated), & | ^ &^, << >>, unary - ^ !, comparisons,
//	             && ||, integer conversions T(x), bits.Len64, calls of earlier whitelisted kernels,
//	             len(<parameterised slice>), x.M() / x.f of a slice element through the projection
//	             table; error results nil / ErrX / &T{.., Err: ErrX}
//	state        methods that mutate their receiver are translated state-passing (kernelSpec.state):
//	             see kernels_state.go for the supported mutations, nilable element variables,
//	             counted loops, local []int slices, calls of earlier receiver-method kernels and
//	             error variables; an if / switch with a branch that jumps on some paths only has
//	             the code after it emitted in both branches
//	field reads  only those listed in the per-function parameterisation table (kernelSpec.fields,
//	             kernelSpec.slices): the listed expression becomes a parameter of the Lean definition
//	extensions   (switched on per kernel, see kernels_decode.go): a slice PARAMETER `p []uintN` ↦
//	             `List (BitVec N)` (kernelSpec.sliceParams); an index expression nested in the
//	             right-hand side of an assignment, hoisted into a preceding `match GoSem.index? ..`
//	             (hoistIndex; never out of the right operand of && / ||); members of members of a
//	             slice element (`x.f.M()` ↦ the projection "f.M"); a Go type table (goTypes) for
//	             interface / pointer variables that are nilable ids or records and for slice
//	             results (`return nil` ↦ []); string sentinels of an id type (idLean, idConsts);
//	             opaque calls replaced by a Lean term over extra Lean parameters (opaque,
//	             extraParams)
//	             (see kernels_value.go): strings (constants, variables, == / !=) ↦ String; a Go
//	             `any` ↦ GoSem.Any (value tagged by its dynamic type; a float64 only as an opaque
//	             marker, opaqueFloat); intN(x) of an exactFloat x ↦ BitVec.ofInt; struct (pointer)
//	             locals / results of kernelSpec.structs ↦ Lean records with field assignment;
//	             aliases of reads through a parameter (aliases); untranslated locals (ignoreVars)
//	             (see kernels_canid.go): a call of an earlier kernel on a range variable (its
//	             parameterised reads ↦ projections of the element); slices.Insert / slices.Delete /
//	             append on the state slice as GoSem.sliceInsert / sliceDelete (Res.panic out of
//	             range, sliceOpsPanic); error results that keep the argument name (errLean);
//	             methods that return their receiver (fluent); local lists of scalars
//	             (see kernels_valid.go): `(*T, error)` results (a nilable struct pointer ↦ Option
//	             record); causes that are structs (`&ErrGreaterThen{Target: ".."}`); a separate
//	             generated cause inductive (causeType); float64 as an ORDER-ONLY `Rat`
//	             (floatOrder: parameters, constants, comparisons; arithmetic rejected)
package main

import (
	"fmt"
	"go/ast"
	"go/constant"
	"go/token"
	"go/types"
	"math/big"
	"os"
	"path/filepath"
	"sort"
	"strings"

	"golang.org/x/tools/go/packages"
)

func init() { extraWriters = append(extraWriters, writeKernels) }

// ---- the whitelist ----

// kField: every occurrence of the Go expression `expr` (compared as printed source text) in the
// function is replaced by the parameter `name`, whose type is the Go type of the expression.
type kField struct{ expr, name string }

// kSlice: the Go slice expression `expr` (read through a receiver / pointer parameter) becomes
// the parameter `name : List elem`.  Elements are only observed through the listed members
// (method calls without arguments or field reads on an element ↦ projections of `elem`).
type kSlice struct {
	kField
	elem string            // Lean element type
	proj map[string]string // Go method / field name of an element ↦ projection of elem
	// isMap: the expression is a Go map whose VALUES are iterated (`for _, v := range m`); the
	// list is the values in an arbitrary order — the equality theorems quantify over all lists,
	// hence over all iteration orders.  No range key, no indexing.
	isMap bool
}

type kernelSpec struct {
	pkg        string // "acmelib" or "dbc"
	file       string // base name of the source file
	goName     string // Recv.Name as printed by funcName
	lean       string // name of the generated definition (namespace Acme.Gen.K)
	fields     []kField
	slices     []kSlice
	vias       []kVia                 // parameters only handed on to callees / components of the argument signal
	structs    map[string]kStructSpec // Go structs whose literals are translated (kernels_bits.go)
	state      *kState                // state-passing translation of a receiver-mutating method (kernels_state.go)
	idTypes    []string               // named Go types used as opaque identities (↦ Nat; only == and != allowed)
	exactFloat bool                   // float64(integer expr) ↦ the exact integer; integral float constants ↦ Int
	model      string                 // the hand-written model function it is proved equal to (documentation)

	// extensions used by the kernels of kernels_decode.go (all empty for the other kernels)
	goTypes     map[string]kType  // Go type (printed without package qualifier) ↦ its translation
	idLean      string            // != "": the Lean type of the idTypes of this kernel (default Nat)
	idConsts    map[string]string // string constants of an id type (sentinels) ↦ Lean term
	sliceParams []string          // Go parameters of type []uintN / []int that become `List (BitVec N)` / `List Int`
	extraParams []kVar            // Lean parameters without a Go counterpart (the functions of the opaque calls)
	opaque      []kOpaque         // calls that are not translated but REPLACED by the listed Lean term
	hoistIndex  bool              // an index expression nested in the right-hand side of an assignment is hoisted

	// extensions used by the kernels of kernels_value.go
	aliases     map[string]string // local `x := <read through a parameter>` that is only the root of parameterised reads
	ignoreVars  []string          // locals that are NOT translated (statements that only concern them are dropped)
	opaqueFloat bool              // a float64 stored in an `any` is the marker Any.float64 (its expression is not translated)

	// extensions used by the kernels of kernels_canid.go
	errLean       string // != "": the Lean type of an error cause in this kernel (default Cause), see errValueHook
	sliceOpsPanic bool   // slices.Insert / slices.Delete on the state slice are GoSem.sliceInsert / sliceDelete (Res: they panic out of range)
	fluent        bool   // the method returns its receiver (`return b`): no result

	// extension used by the kernels of kernels_valid.go
	floatOrder bool   // float64 ↦ Rat, ORDER ONLY: parameters, constants, comparisons; arithmetic / conversions are rejected
	causeType  string // != "": the sentinels of this kernel go to a SEPARATE generated inductive of this name (not `Cause`)
}

// kCauseSets: the generated cause inductives other than `Cause` (kernelSpec.causeType) and their
// constructors.  The sentinels of the layout kernels stay alone in `Cause`: the proofs map them
// injectively to the model's LErr, and a new sentinel there must break that match.
var kCauseSets = map[string]map[string]bool{}

// regCause registers a sentinel of the kernel and returns the Lean constructor.
func (t *ktr) regCause(name string) string {
	ct := t.spec.causeType
	if ct == "" {
		kCauses[name] = true
		return "Cause." + name
	}
	if kCauseSets[ct] == nil {
		kCauseSets[ct] = map[string]bool{}
	}
	kCauseSets[ct][name] = true
	return ct + "." + name
}

// errValueHook: translation of an error result in kernels with errLean (kernels_canid.go)
var errValueHook func(t *ktr, e ast.Expr) string

// kOpaque: `x := <fun>(a1, .., an)` is replaced by the Lean term `lean` (`%1` .. `%n` = the
// translated arguments, whose types must be `args`); the result has type `res`.  The callee is
// NOT translated: the entry is part of the trusted base of the kernel.
type kOpaque struct {
	fun    string // the called function as printed source text, e.g. "sl.decodeSignal"
	args   []kType
	res    kType
	lean   string
	causes []string // the sentinels the Lean term mentions (constructors of Cause)
}

var kernelSpecs = []kernelSpec{
	{pkg: "acmelib", file: "helpers.go", goName: "calcSizeFromValue", lean: "calcSizeFromValue",
		model: "Acme.Arith.calcSize"},
	{pkg: "acmelib", file: "helpers.go", goName: "calcValueFromSize", lean: "calcValueFromSize",
		model: "Acme.Arith.calcValue"},
	{pkg: "acmelib", file: "importer.go", goName: "importer.getSignalStartBit", lean: "getSignalStartBit",
		fields: []kField{
			{"dbcSig.StartBit", "sigStartBit"},
			{"dbcSig.ByteOrder == dbc.SignalLittleEndian", "littleEndian"},
		},
		model: "Acme.Conv.convStart (big endian) / identity (little endian)"},
	{pkg: "acmelib", file: "exporter.go", goName: "exporter.getStartBit", lean: "exporterStartBit",
		model: "Acme.Conv.convStart (big endian) / identity (little endian)"},
	{pkg: "acmelib", file: "signal_enum.go", goName: "calcEnumSize", lean: "calcEnumSize",
		model: "Acme.Arith.enumSize"},
	{pkg: "acmelib", file: "canid_builder.go", goName: "CANIDBuilder.calculateOp", lean: "calculateOp",
		fields: []kField{{"op.kind", "opKind"}, {"op.from", "opFrom"}, {"op.len", "opLen"}},
		model:  "Acme.CanId.calcOp"},
	{pkg: "acmelib", file: "signal_type.go", goName: "calcTypeRange", lean: "calcTypeRange",
		exactFloat: true, model: "Acme.Arith.typeRange"},

	// the acceptance checks of the payload layout (property C01)
	{pkg: "acmelib", file: "signal_layout.go", goName: "SignalLayout.verifyBeforeInsert", lean: "verifyBeforeInsert",
		fields: []kField{{"sl.size", "cap"}, {"sig.GetSize()", "sz"}},
		slices: []kSlice{layoutSignals}, model: "Acme.Layout.verifyInsert"},
	{pkg: "acmelib", file: "signal_layout.go", goName: "SignalLayout.verifyBeforeAppend", lean: "verifyBeforeAppend",
		fields: []kField{{"sl.size", "cap"}, {"sig.GetSize()", "sz"}},
		slices: []kSlice{layoutSignals}, model: "Acme.Layout.verifyAppend"},
	{pkg: "acmelib", file: "signal_layout.go", goName: "SignalLayout.verifyBeforeShrink", lean: "verifyBeforeShrink",
		fields: []kField{{"sig.GetSize()", "sz"}}, model: "Acme.Layout.verifyShrink"},
	{pkg: "acmelib", file: "signal_layout.go", goName: "SignalLayout.verifyBeforeGrow", lean: "verifyBeforeGrow",
		fields:  []kField{{"sl.size", "cap"}, {"sig.EntityID()", "id"}},
		slices:  []kSlice{layoutSignals},
		idTypes: []string{"EntityID"}, model: "Acme.Layout.verifyGrow"},
	{pkg: "acmelib", file: "signal_layout.go", goName: "SignalLayout.verifyBeforeResize", lean: "verifyBeforeResize",
		fields: []kField{{"sl.size", "cap"}},
		slices: []kSlice{layoutSignals}, model: "Acme.Layout.verifyResize"},
}

var moreKernelSpecs = []kernelSpec{
	// enum / multiplexer sizes (callers of calcEnumSize / calcSizeFromValue)
	{pkg: "acmelib", file: "signal_enum.go", goName: "SignalEnum.getMaxIndexWith", lean: "getMaxIndexWith",
		fields: []kField{{"value.entityID", "id"}},
		slices: []kSlice{{kField: kField{"se.values.entries()", "vals"}, elem: "Acme.GoSem.IdIndex",
			proj: map[string]string{"entityID": "id", "index": "index"}, isMap: true}},
		idTypes: []string{"EntityID"}, model: "Acme.Payload.maxIndexWith"},
	{pkg: "acmelib", file: "signal_enum.go", goName: "SignalEnum.GetSize", lean: "enumGetSize",
		fields: []kField{{"se.minSize", "minSize"}, {"se.maxIndex", "maxIndex"}}, model: "Acme.Arith.enumSize"},
	{pkg: "acmelib", file: "mux_signal.go", goName: "MultiplexerSignal.GetGroupCountSize", lean: "getGroupCountSize",
		fields: []kField{{"ms.groupCount", "groupCount"}}, model: "Acme.Arith.muxSelWidth"},
	{pkg: "acmelib", file: "mux_signal.go", goName: "MultiplexerSignal.GetSize", lean: "muxGetSize",
		fields: []kField{{"ms.groupSize", "groupSize"}, {"ms.GetGroupCountSize()", "groupCountSize"}},
		model:  "groupSize + Acme.Arith.muxSelWidth groupCount (composed with getGroupCountSize)"},
}

func init() { kernelSpecs = append(kernelSpecs, moreKernelSpecs...) }

// the state-changing half of the payload layout (property C01); see kernels_state.go
func layoutState(arg string, outSize bool) *kState {
	return &kState{slice: "sl.signals", size: "sl.size", outSize: outSize,
		ignoreCalls: []string{"sl.generateFilters()"}, ignoreAssign: []string{"sl.filters"},
		setter: "setRelativeStartPos", setField: "start", arg: arg}
}

var argSignal = []kVia{
	{"sig.EntityID()", "id", kType{k: kId}},
	{"sig.GetRelativeStartPos()", "sigStart", kType{k: kInt}},
	{"sig.GetSize()", "sz", kType{k: kInt}},
}

var stateKernelSpecs = []kernelSpec{
	{pkg: "acmelib", file: "signal_layout.go", goName: "SignalLayout.insert", lean: "layoutInsert",
		slices: []kSlice{layoutSignals}, vias: argSignal, idTypes: []string{"EntityID"},
		state: layoutState("sig", false), model: "Acme.Layout.insert"},
	{pkg: "acmelib", file: "signal_layout.go", goName: "SignalLayout.append", lean: "layoutAppend",
		slices: []kSlice{layoutSignals}, vias: append([]kVia{{"sl.size", "cap", kType{k: kInt}}}, argSignal...),
		idTypes: []string{"EntityID"}, state: layoutState("sig", false), model: "Acme.Layout.append"},
	{pkg: "acmelib", file: "signal_layout.go", goName: "SignalLayout.remove", lean: "layoutRemove",
		slices: []kSlice{layoutSignals}, idTypes: []string{"EntityID"},
		state: layoutState("", false), model: "Acme.Layout.remove"},
	{pkg: "acmelib", file: "signal_layout.go", goName: "SignalLayout.removeAll", lean: "layoutRemoveAll",
		slices: []kSlice{layoutSignals}, state: layoutState("", false), model: "[]"},
	{pkg: "acmelib", file: "signal_layout.go", goName: "SignalLayout.compact", lean: "layoutCompact",
		slices: []kSlice{layoutSignals}, state: layoutState("", false), model: "Acme.Layout.compact"},
	{pkg: "acmelib", file: "signal_layout.go", goName: "SignalLayout.modifyStartBitsOnShrink", lean: "modifyStartBitsOnShrink",
		fields: []kField{{"sig.EntityID()", "id"}}, slices: []kSlice{layoutSignals},
		vias:    []kVia{{"sig.GetSize()", "sz", kType{k: kInt}}},
		idTypes: []string{"EntityID"}, state: layoutState("", false), model: "Acme.Layout.shrinkStarts"},
	{pkg: "acmelib", file: "signal_layout.go", goName: "SignalLayout.resize", lean: "layoutResize",
		fields: []kField{{"sl.size", "cap"}}, slices: []kSlice{layoutSignals},
		state: layoutState("", true), model: "Acme.Layout.verifyResize + the assignment of the size"},
	{pkg: "acmelib", file: "signal_layout.go", goName: "SignalLayout.shiftLeft", lean: "shiftLeft",
		slices: []kSlice{layoutSignals}, idTypes: []string{"EntityID"},
		state: layoutState("", false), model: "Acme.Layout.shiftLeft"},
	{pkg: "acmelib", file: "signal_layout.go", goName: "SignalLayout.shiftRight", lean: "shiftRight",
		fields: []kField{{"sl.size", "cap"}}, slices: []kSlice{layoutSignals}, idTypes: []string{"EntityID"},
		state: layoutState("", false), model: "Acme.Layout.shiftRight"},
}

// generateFilters: the signals with their byte order, the filters as the records of Acme.Core.Bits
var filterSignals = kSlice{
	kField: kField{"sl.signals", "sigs"},
	elem:   "(Acme.Layout.Slot × Bool)",
	proj: map[string]string{"EntityID": "(%.1.id)", "GetRelativeStartPos": "(%.1.start)", "GetSize": "(%.1.size)",
		// MessageByteOrderLittleEndian = 0, MessageByteOrderBigEndian = 1 (the generated code
		// compares with the constant VALUES of the source)
		"Endianness": "(if %.2 then (1 : Int) else (0 : Int))"},
}

var filterStruct = map[string]kStructSpec{"SignalLayoutFilter": {lean: "Acme.Bits.Filter", fields: map[string]string{
	"signal": "id := (%.1.id), be := %.2", "byteIdx": "byteIdx := %", "mask": "mask := (BitVec.toNat %)",
	"length": "length := %", "leftOffset": "leftOffset := %"}}}

var bitsKernelSpecs = []kernelSpec{
	{pkg: "acmelib", file: "signal_layout.go", goName: "SignalLayout.generateFilters", lean: "generateFilters",
		slices:  []kSlice{filterSignals, {kField: kField{"sl.filters", "outFilters"}, elem: "Acme.Bits.Filter"}},
		structs: filterStruct,
		state:   &kState{slice: "sl.filters", outOnly: true}, model: "Acme.Bits.genFilters"},
}

func init() {
	kernelSpecs = append(kernelSpecs, stateKernelSpecs...)
	kernelSpecs = append(kernelSpecs, kernelSpec{pkg: "acmelib", file: "signal_layout.go",
		goName: "SignalLayout.modifyStartBitsOnGrow", lean: "modifyStartBitsOnGrow",
		fields: []kField{{"sl.size", "cap"}, {"sig.EntityID()", "id"}}, slices: []kSlice{layoutSignals},
		idTypes: []string{"EntityID"}, state: layoutState("", false), model: "Acme.Layout.growStarts"})
	kernelSpecs = append(kernelSpecs, bitsKernelSpecs...)
}

// `sl.signals` of a SignalLayout: the signals in slice order, each seen as an Acme.Layout.Slot
// (entity id, relative start position, size).
var layoutSignals = kSlice{
	kField: kField{"sl.signals", "sigs"},
	elem:   "Acme.Layout.Slot",
	proj:   map[string]string{"EntityID": "id", "GetRelativeStartPos": "start", "GetSize": "size"},
}

// modules imported by the generated file: the operator semantics and the element types of the
// parameterised slices
var kernelImports = []string{"Acme.Core.GenPrelude", "Acme.Core.Layout", "Acme.Core.Bits"}

// library functions with a definition in Acme/Core/GenPrelude.lean
var kBuiltins = map[string]struct {
	lean string
	arg  kType
	res  kType
}{
	"math/bits.Len64": {"Acme.GoSem.len64", kType{k: kBV, w: 64}, kType{k: kInt}},
}

// ---- types ----

type kKind int

const (
	kInt     kKind = iota // Go int ↦ Int
	kBV                   // sized integer ↦ BitVec w
	kBool                 // bool ↦ Bool
	kExact                // float64 holding an exact integer ↦ Int (exactFloat functions only)
	kUntyped              // untyped integer constant
	kId                   // opaque identity (kernelSpec.idTypes) ↦ Nat, compared with == / != only
	kElem                 // element of a parameterised slice ↦ the slice's Lean element type
	kList                 // a parameterised slice ↦ List elem
	kErrT                 // Go error ↦ Option Cause (nil ↦ none, a sentinel ↦ some)
)

const kFunc kKind = 101 // a Lean function parameter of an opaque call (kernelSpec.extraParams); never a Go value
const (
	kStr kKind = 102 + iota // Go string (and named string types) ↦ String: constants, variables, == / != only
	kAny                    // Go `any` ↦ Acme.GoSem.Any (the stored value tagged by its dynamic type)
	kRec                    // a struct (pointer) of kernelSpec.structs ↦ the Lean record `elem`
	kRat                    // float64 in a floatOrder kernel ↦ Rat (the exact value; comparisons only)
)

type kType struct {
	k      kKind
	w      int
	signed bool
	elem   string // kElem / kList: the Lean element type
}

func (t kType) lean() string {
	switch t.k {
	case kInt, kExact, kUntyped:
		return "Int"
	case kBV:
		return fmt.Sprintf("BitVec %d", t.w)
	case kBool:
		return "Bool"
	case kId:
		if t.elem != "" {
			return t.elem
		}
		return "Nat"
	case kFunc:
		return "(" + t.elem + ")"
	case kStr:
		return "String"
	case kRat:
		return "Rat"
	case kAny:
		return "Acme.GoSem.Any"
	case kRec:
		return t.elem
	case kElem:
		return t.elem
	case kList:
		return "List " + leanArg(t.elem)
	case kErrT:
		if t.elem != "" {
			return "Option " + leanArg(t.elem)
		}
		return "Option Cause"
	case kElemOpt:
		return "Option " + leanArg(t.elem)
	}
	return "?"
}

// leanArg parenthesises a Lean type that is an application (`BitVec 8`) for use as an argument.
func leanArg(ty string) string {
	if strings.Contains(ty, " ") && !strings.HasPrefix(ty, "(") {
		return "(" + ty + ")"
	}
	return ty
}

func (t kType) String() string {
	switch t.k {
	case kInt:
		return "int"
	case kBV:
		if t.signed {
			return fmt.Sprintf("int%d", t.w)
		}
		return fmt.Sprintf("uint%d", t.w)
	case kBool:
		return "bool"
	case kExact:
		return "float64(exact integer)"
	case kId:
		return "identity"
	case kElem:
		return "slice element"
	case kList:
		return "slice"
	case kErrT:
		return "error"
	case kElemOpt:
		return "nilable slice element"
	case kFunc:
		return "function parameter"
	case kStr:
		return "string"
	case kRat:
		return "float64 (order only)"
	case kAny:
		return "any"
	case kRec:
		return "struct " + t.elem
	}
	return "untyped constant"
}

// ---- intermediate form: straight-line lets, returns and two-armed conditionals ----

type kStmt interface{}
type kLet struct {
	name, rhs string
	ty        kType
	decl      bool // declares the variable (:= / var) rather than assigning to it
}
type kRet struct{ val string }
type kBreak struct{}
type kContinue struct{}

// kIndex: name := list[idx]; an index out of range is the result `Res.panic`
type kIndex struct {
	name, list, idx string
	ty              kType
	opt             bool // assignment to an existing nilable element variable (name := some ..)
}

// kLoop: for idx, elem := range list { body }
type kLoop struct {
	list, elem, idx string
	elemTy          kType
	body            []kStmt
	vars            []kVar // the variables visible at the loop, in declaration order
	pos             token.Pos
	stateful        bool // loop over the mutable state slice (kernels_state.go)
	listTy          kType
	start           string // != "": `for i := start; i < len(list); i++` (kernels_state.go)
}
type kVar struct {
	name string
	ty   kType
}
type kIf struct {
	cond      string
	then, els []kStmt
	what      string // "if" / "switch", for messages
	pos       token.Pos
	optVar    string // != "": `match optVar with | some optVar => then | none => els`
}

type kernelOut struct {
	spec   *kernelSpec
	params []string // "(name : Type)"
	res    []kType
	resTy  string   // the Lean result type
	aux    []string // auxiliary definitions preceding the main one
	body   string
	src    string
	plain  bool // the Lean parameters are exactly the Go parameters (callable from other kernels)
	nparam int

	origins  []kOrigin // where each Lean parameter comes from (nil: not callable through kernelCall)
	hasRecv  bool
	mayPanic bool
}

type kErr struct {
	pos token.Pos
	msg string
}

type ktr struct {
	spec   *kernelSpec
	info   *types.Info
	fd     *ast.FuncDecl
	fields map[string]*kFieldUse
	vars   map[types.Object]string // visible variables ↦ Lean name
	names  map[string]kType        // visible Lean names
	scope  []kVar                  // the same, in declaration order
	funcs  map[types.Object]*kernelOut
	res    []kType

	inLoop, inSwitch int
	mayPanic         bool     // contains an index expression: the result is wrapped in GoSem.Res
	aux              []string // auxiliary definitions (loops and their continuations), in order
	nloops           int

	inFuel     bool                        // inside a counted integer loop (kernels_bits.go)
	labels     map[string]func(int) string // label ↦ emitter of the statements from the label on
	labelBusy  map[string]bool
	countedIdx string          // loop variable of the enclosing `for i := a; i < len(s); i++`
	alias      map[string]bool // variables that are the current element of that loop (s[i])
	stale      map[string]bool // element variables that may alias a mutated element
	loopElem   string          // range variable of the enclosing loop over the state slice
	elemGoType types.Type      // Go element type of the state slice
	loop       *kLoopCtx

	hoistOK bool    // an index expression met now is evaluated unconditionally by the current statement
	pending []kStmt // the hoisted index expressions of the current statement
	nhoist  int
}

// stmtHooks: statement forms of the extensions in other files (tried first, in order)
var stmtHooks []func(t *ktr, s ast.Stmt) ([]kStmt, bool)

// scalarElem: the value type of an element of a `List Int` / `List (BitVec N)` (unsigned)
func scalarElem(elem string) (kType, bool) {
	if elem == "Int" {
		return kType{k: kInt}, true
	}
	var w int
	if n, err := fmt.Sscanf(elem, "BitVec %d", &w); err == nil && n == 1 && fmt.Sprintf("BitVec %d", w) == elem {
		return kType{k: kBV, w: w}, true
	}
	return kType{}, false
}

// hoistIndex: `s[i]` nested in an expression ↦ a fresh variable bound by a `match GoSem.index? ..`
// that precedes the statement (an index out of range is `Res.panic`).  Only where the index
// expression is evaluated whenever the statement is (t.hoistOK).
func (t *ktr) hoistIndex(x *ast.IndexExpr) (string, kType) {
	ls, lty := t.expr(x.X)
	if lty.k != kList {
		t.fail(x, "index into a %s (only a parameterised slice may be indexed)", lty)
	}
	if t.isMapParam(ls) {
		t.fail(x, "index into the map `%s`", exprStr(x.X))
	}
	idx := t.value(x.Index, kType{k: kInt})
	ety := kType{k: kElem, elem: lty.elem}
	if st, ok := scalarElem(lty.elem); ok {
		ety = st
	}
	t.nhoist++
	name := fmt.Sprintf("at%d_", t.nhoist)
	if _, clash := t.names[name]; clash {
		t.fail(x, "variable name %s is reserved by the translator", name)
	}
	t.pending = append(t.pending, kIndex{name: name, list: ls, idx: idx, ty: ety})
	return name, ety
}

type kLoopCtx struct {
	brk, cont                string
	hiddenParams, hiddenArgs string // recursion variables of the loop (for definitions nested in its body)
}

type kFieldUse struct {
	f    kField
	ty   kType
	root *ast.Ident
	used bool
}

func (t *ktr) fail(n ast.Node, format string, a ...any) {
	pos := token.NoPos
	if n != nil {
		pos = n.Pos()
	}
	panic(kErr{pos, fmt.Sprintf(format, a...)})
}

var leanReserved = map[string]bool{}

func init() {
	for _, w := range strings.Fields(`from at end fun let in if then else do have show match with open section
		namespace def theorem instance structure class where by using mut for return Type Prop Sort import
		variable universe example calc deriving extends private protected partial unsafe nomatch nofun this
		at suffices obtain exists forall macro syntax notation prefix infix infixl infixr postfix abbrev
		axiom opaque inductive mutual attribute export local scoped noncomputable set_option unless try catch
		finally break continue true false`) {
		leanReserved[w] = true
	}
}

func mangle(s string) string {
	if leanReserved[s] || s == "_" {
		return s + "_"
	}
	return s
}

func unparen(e ast.Expr) ast.Expr {
	for {
		p, ok := e.(*ast.ParenExpr)
		if !ok {
			return e
		}
		e = p.X
	}
}

func (t *ktr) typeOf(ty types.Type, at ast.Node) kType {
	ty = types.Unalias(ty)
	if types.Identical(ty, types.Universe.Lookup("error").Type()) {
		return kType{k: kErrT, elem: t.spec.errLean}
	}
	if t.elemGoType != nil && types.Identical(ty, t.elemGoType) {
		return kType{k: kElemOpt, elem: t.stateSlice().elem}
	}
	if gt, ok := t.spec.goTypes[bareType(ty)]; ok {
		return gt
	}
	if nt, ok := ty.(*types.Named); ok {
		for _, n := range t.spec.idTypes {
			if nt.Obj().Name() == n {
				return kType{k: kId, elem: t.spec.idLean}
			}
		}
	}
	b, ok := ty.Underlying().(*types.Basic)
	if !ok {
		t.fail(at, "value of type %s (only integer and bool types are supported)", ty)
	}
	switch b.Kind() {
	case types.Int:
		return kType{k: kInt}
	case types.Int8:
		return kType{k: kBV, w: 8, signed: true}
	case types.Int16:
		return kType{k: kBV, w: 16, signed: true}
	case types.Int32:
		return kType{k: kBV, w: 32, signed: true}
	case types.Int64:
		return kType{k: kBV, w: 64, signed: true}
	case types.Uint8:
		return kType{k: kBV, w: 8}
	case types.Uint16:
		return kType{k: kBV, w: 16}
	case types.Uint32:
		return kType{k: kBV, w: 32}
	case types.Uint64, types.Uint, types.Uintptr:
		return kType{k: kBV, w: 64}
	case types.Bool, types.UntypedBool:
		return kType{k: kBool}
	case types.UntypedInt, types.UntypedRune:
		return kType{k: kUntyped}
	case types.Float64, types.UntypedFloat:
		if t.spec.exactFloat {
			return kType{k: kExact}
		}
		if t.spec.floatOrder {
			return kType{k: kRat}
		}
	}
	t.fail(at, "value of type %s (only integer and bool types are supported)", ty)
	return kType{}
}

// bareType prints a Go type without package qualifiers (the key of kernelSpec.goTypes).
func bareType(ty types.Type) string {
	return types.TypeString(ty, func(*types.Package) string { return "" })
}

func (t *ktr) supported(ty types.Type) bool {
	if nt, ok := types.Unalias(ty).(*types.Named); ok {
		for _, n := range t.spec.idTypes {
			if nt.Obj().Name() == n {
				return true
			}
		}
	}
	if gt, ok := t.spec.goTypes[bareType(types.Unalias(ty))]; ok && gt.k == kStr {
		return true // a string parameter of a kernel with strings in its type table
	}
	b, ok := ty.Underlying().(*types.Basic)
	if !ok {
		return false
	}
	if b.Kind() == types.Float64 && t.spec.floatOrder {
		return true
	}
	return b.Info()&(types.IsInteger|types.IsBoolean) != 0 && b.Info()&types.IsUntyped == 0
}

func (t *ktr) constLit(v constant.Value, ty kType, at ast.Node, asProp bool) string {
	if ty.k == kBool {
		if v.Kind() != constant.Bool {
			t.fail(at, "constant %s of a bool type", v)
		}
		if constant.BoolVal(v) {
			if asProp {
				return "True"
			}
			return "true"
		}
		if asProp {
			return "False"
		}
		return "false"
	}
	if ty.k == kRat {
		r, ok := new(big.Rat).SetString(v.ExactString())
		if !ok {
			t.fail(at, "float constant %s", v)
		}
		if r.IsInt() {
			return fmt.Sprintf("(%s : Rat)", r.Num().String())
		}
		return fmt.Sprintf("((%s : Rat) / %s)", r.Num().String(), r.Denom().String())
	}
	if ty.k == kStr {
		if v.Kind() != constant.String {
			t.fail(at, "constant %s of a string type", v)
		}
		return leanStr(constant.StringVal(v))
	}
	if ty.k == kId {
		if v.Kind() == constant.String {
			if l, ok := t.spec.idConsts[constant.StringVal(v)]; ok {
				return l
			}
		}
		t.fail(at, "constant %s of an identity type that is not in the id-constant table of %s", v, t.spec.goName)
	}
	iv := constant.ToInt(v)
	if iv.Kind() != constant.Int {
		t.fail(at, "non-integral constant %s", v)
	}
	n, ok := new(big.Int).SetString(iv.ExactString(), 10)
	if !ok {
		t.fail(at, "constant %s", v)
	}
	switch ty.k {
	case kBV:
		m := new(big.Int).Lsh(big.NewInt(1), uint(ty.w))
		n.Mod(n, m) // two's complement representation of a negative constant
		return fmt.Sprintf("(%s#%d)", n.String(), ty.w)
	default:
		return fmt.Sprintf("(%s : Int)", n.String())
	}
}

func (t *ktr) fieldMatch(e ast.Expr) *kFieldUse {
	switch e.(type) {
	case *ast.SelectorExpr, *ast.BinaryExpr, *ast.CallExpr, *ast.IndexExpr, *ast.StarExpr, *ast.UnaryExpr:
		if f, ok := t.fields[exprStr(e)]; ok {
			return f
		}
	}
	return nil
}

// expr translates a value expression.
func (t *ktr) expr(e ast.Expr) (string, kType) {
	e = unparen(e)
	if f := t.fieldMatch(e); f != nil {
		f.used = true
		return f.f.name, f.ty
	}
	tv := t.info.Types[e]
	if tv.Value != nil {
		ty := t.typeOf(tv.Type, e)
		return t.constLit(tv.Value, ty, e, false), ty
	}
	switch x := e.(type) {
	case *ast.Ident:
		obj := t.info.Uses[x]
		name, ok := t.vars[obj]
		if !ok {
			t.fail(x, "identifier `%s` is not an integer / bool parameter or a local variable of the kernel", x.Name)
		}
		if t.stale[name] {
			t.fail(x, "element variable `%s` is read after another element was mutated (it could alias the mutated element)", x.Name)
		}
		return name, t.names[name]
	case *ast.BinaryExpr:
		switch x.Op {
		case token.EQL, token.NEQ, token.LSS, token.LEQ, token.GTR, token.GEQ, token.LAND, token.LOR:
			return "(decide " + t.prop(e) + ")", kType{k: kBool}
		}
		return t.binary(x, x.X, x.Op, x.Y, t.typeOf(tv.Type, e))
	case *ast.UnaryExpr:
		switch x.Op {
		case token.NOT:
			return "(decide " + t.prop(e) + ")", kType{k: kBool}
		case token.ADD:
			return t.expr(x.X)
		case token.SUB:
			a, at := t.expr(x.X)
			if at.k != kInt && at.k != kBV {
				t.fail(x, "unary - on %s", at)
			}
			return "(-" + a + ")", at
		case token.XOR:
			a, at := t.expr(x.X)
			switch at.k {
			case kInt:
				return "(Acme.GoSem.intNot " + a + ")", at
			case kBV:
				return "(~~~" + a + ")", at
			}
			t.fail(x, "unary ^ on %s", at)
		}
		t.fail(x, "unary operator %s", x.Op)
	case *ast.CallExpr:
		return t.call(x)
	case *ast.SelectorExpr:
		if s, ty, ok := t.projection(x.X, x.Sel.Name, x); ok {
			return s, ty
		}
		t.fail(x, "field / package member read `%s` that is not in the parameterisation table of %s", exprStr(x), t.spec.goName)
	case *ast.IndexExpr:
		if t.hoistOK {
			return t.hoistIndex(x)
		}
		t.fail(x, "index expression `%s` that is not the whole right-hand side of a `:=` definition (a nested one is hoisted only out of the unconditionally evaluated part of an assignment, in a kernel marked hoistIndex)", exprStr(x))
	}
	t.fail(e, "expression `%s` (%T)", exprStr(e), e)
	return "", kType{}
}

func (t *ktr) isMapParam(name string) bool {
	for _, sl := range t.spec.slices {
		if sl.name == name {
			return sl.isMap
		}
	}
	return false
}

// projection translates `x.M()` / `x.f` for a variable x that holds an element of a
// parameterised slice.
func (t *ktr) projection(recv ast.Expr, member string, at ast.Expr) (string, kType, bool) {
	if sel, isSel := unparen(recv).(*ast.SelectorExpr); isSel {
		// x.f.M() / x.f.g: a member of a member, listed as "f.M" in the projection table
		if _, isID := unparen(sel.X).(*ast.Ident); isID {
			recv, member = sel.X, sel.Sel.Name+"."+member
		}
	}
	id, ok := unparen(recv).(*ast.Ident)
	if !ok {
		return "", kType{}, false
	}
	name, ok := t.vars[t.info.Uses[id]]
	if !ok || t.names[name].k != kElem {
		if ok && t.names[name].k == kElemOpt {
			t.fail(at, "member of the nilable element variable `%s` outside an `if %s != nil` branch", name, name)
		}
		return "", kType{}, false
	}
	if t.stale[name] {
		t.fail(at, "element variable `%s` is read after another element was mutated (it could alias the mutated element)", name)
	}
	for _, sl := range t.spec.slices {
		if sl.elem != t.names[name].elem {
			continue
		}
		p, ok := sl.proj[member]
		if !ok {
			t.fail(at, "member `%s` of an element of `%s` is not in the projection table of %s", member, sl.expr, t.spec.goName)
		}
		if strings.Contains(p, "%") { // a template: % = the element
			return strings.ReplaceAll(p, "%", name), t.typeOf(t.info.Types[at].Type, at), true
		}
		return "(" + name + "." + p + ")", t.typeOf(t.info.Types[at].Type, at), true
	}
	return "", kType{}, false
}

func (t *ktr) conv(a string, from, to kType, at ast.Node) string {
	switch to.k {
	case kInt, kExact:
		switch from.k {
		case kInt, kUntyped:
			return a
		case kExact:
			if to.k == kExact {
				return a
			}
			t.fail(at, "conversion of a float64 to an integer")
		case kBV:
			if !from.signed && (from.w < 64 || to.k == kExact) {
				return "(" + a + ".toNat : Int)"
			}
			return "(" + a + ".toInt)" // signed source, or uint64 → int (reinterpreted)
		}
	case kBV:
		switch from.k {
		case kInt, kUntyped:
			return fmt.Sprintf("(BitVec.ofInt %d %s)", to.w, a)
		case kExact:
			// intN(x) / uintN(x) of a float64 that holds an exact integer IN THE RANGE of the target
			// type (the exactFloat convention; out of range the Go result is implementation-defined)
			return fmt.Sprintf("(BitVec.ofInt %d %s)", to.w, a)
		case kBV:
			if from.w == to.w {
				return a
			}
			if from.signed {
				return fmt.Sprintf("(BitVec.signExtend %d %s)", to.w, a)
			}
			return fmt.Sprintf("(BitVec.setWidth %d %s)", to.w, a)
		}
	}
	t.fail(at, "conversion from %s to %s", from, to)
	return ""
}

func (t *ktr) call(c *ast.CallExpr) (string, kType) {
	if c.Ellipsis.IsValid() {
		t.fail(c, "variadic call")
	}
	fun := unparen(c.Fun)
	if tvf, ok := t.info.Types[fun]; ok && tvf.IsType() {
		if len(c.Args) != 1 {
			t.fail(c, "conversion with %d arguments", len(c.Args))
		}
		to := t.typeOf(tvf.Type, c)
		a, from := t.expr(c.Args[0])
		return t.conv(a, from, to, c), to
	}
	if sel, ok := fun.(*ast.SelectorExpr); ok && len(c.Args) == 0 {
		if s, ty, ok := t.projection(sel.X, sel.Sel.Name, c); ok {
			return s, ty
		}
	}
	if id, ok := fun.(*ast.Ident); ok && id.Name == "len" && len(c.Args) == 1 {
		if _, isBuiltin := t.info.Uses[id].(*types.Builtin); isBuiltin {
			a, at := t.expr(c.Args[0])
			if at.k != kList {
				t.fail(c, "len of a %s (only the length of a parameterised slice is supported)", at)
			}
			return "(Int.ofNat (List.length " + a + "))", kType{k: kInt}
		}
	}
	var obj types.Object
	switch f := fun.(type) {
	case *ast.Ident:
		obj = t.info.Uses[f]
	case *ast.SelectorExpr:
		obj = t.info.Uses[f.Sel]
	}
	fn, ok := obj.(*types.Func)
	if !ok || fn.Pkg() == nil {
		t.fail(c, "call `%s` (only conversions, bits.Len64 and earlier whitelisted kernels may be called)", exprStr(c))
	}
	full := fn.Pkg().Path() + "." + fn.Name()
	if sig, ok := fn.Type().(*types.Signature); ok && sig.Recv() == nil {
		if b, ok := kBuiltins[full]; ok {
			if len(c.Args) != 1 {
				t.fail(c, "%s with %d arguments", full, len(c.Args))
			}
			a, at := t.expr(c.Args[0])
			if at != b.arg {
				t.fail(c, "%s applied to a %s", full, at)
			}
			return "(" + b.lean + " " + a + ")", b.res
		}
	}
	if cs, k, ok := t.kernelCall(c); ok && !k.plain {
		if k.mayPanic || len(k.res) != 1 || k.spec.state != nil {
			t.fail(c, "call of kernel %s in an expression (it may panic / returns a state: bind it with `x := ..`)", k.spec.goName)
		}
		return cs, k.res[0]
	}
	if k, ok := t.funcs[obj]; ok {
		if !k.plain || len(k.res) != 1 || len(c.Args) != k.nparam {
			t.fail(c, "call of kernel %s, whose Lean parameters differ from its Go parameters", k.spec.goName)
		}
		s := "(" + k.spec.lean
		for _, a := range c.Args {
			as, _ := t.expr(a)
			s += " " + as
		}
		return s + ")", k.res[0]
	}
	t.fail(c, "call of `%s`, which is neither bits.Len64 nor an earlier whitelisted kernel", full)
	return "", kType{}
}

func (t *ktr) shiftCount(y ast.Expr) string {
	if tv := t.info.Types[unparen(y)]; tv.Value != nil {
		iv := constant.ToInt(tv.Value)
		if iv.Kind() != constant.Int || constant.Sign(iv) < 0 {
			t.fail(y, "shift count %s", tv.Value)
		}
		return iv.ExactString()
	}
	c, ct := t.expr(y)
	switch {
	case ct.k == kInt:
		return "(Int.toNat " + c + ")"
	case ct.k == kBV && !ct.signed:
		return "(BitVec.toNat " + c + ")"
	case ct.k == kBV:
		return "(Int.toNat (BitVec.toInt " + c + "))"
	}
	t.fail(y, "shift count of type %s", ct)
	return ""
}

// binary translates `x op y` (arithmetic, bitwise, shifts) at result type res.
func (t *ktr) binary(at ast.Node, x ast.Expr, op token.Token, y ast.Expr, res kType) (string, kType) {
	if op == token.SHL || op == token.SHR {
		a, aty := t.expr(x)
		if aty.k == kUntyped {
			aty = res
		}
		n := t.shiftCount(y)
		switch {
		case aty.k == kInt && op == token.SHL:
			return "(Acme.GoSem.intShl " + a + " " + n + ")", aty
		case aty.k == kInt:
			return "(Acme.GoSem.intShr " + a + " " + n + ")", aty
		case aty.k == kBV && op == token.SHL:
			return "(" + a + " <<< " + n + ")", aty
		case aty.k == kBV && !aty.signed:
			return "(" + a + " >>> " + n + ")", aty
		case aty.k == kBV:
			return "(BitVec.sshiftRight " + a + " " + n + ")", aty
		}
		t.fail(at, "shift of a %s", aty)
	}
	a, aty := t.expr(x)
	b, bty := t.expr(y)
	if aty != bty || (aty != res && res.k != kUntyped) {
		t.fail(at, "operator %s on operands of types %s and %s (result %s)", op, aty, bty, res)
	}
	switch aty.k {
	case kInt:
		switch op {
		case token.ADD:
			return "(" + a + " + " + b + ")", aty
		case token.SUB:
			return "(" + a + " - " + b + ")", aty
		case token.MUL:
			return "(" + a + " * " + b + ")", aty
		case token.QUO:
			return "(Int.tdiv " + a + " " + b + ")", aty
		case token.REM:
			return "(Int.tmod " + a + " " + b + ")", aty
		case token.AND:
			return "(Acme.GoSem.intAnd " + a + " " + b + ")", aty
		case token.OR:
			return "(Acme.GoSem.intOr " + a + " " + b + ")", aty
		case token.XOR:
			return "(Acme.GoSem.intXor " + a + " " + b + ")", aty
		case token.AND_NOT:
			return "(Acme.GoSem.intAndNot " + a + " " + b + ")", aty
		}
	case kBV:
		switch op {
		case token.ADD:
			return "(" + a + " + " + b + ")", aty
		case token.SUB:
			return "(" + a + " - " + b + ")", aty
		case token.MUL:
			return "(" + a + " * " + b + ")", aty
		case token.QUO:
			if aty.signed {
				return "(BitVec.sdiv " + a + " " + b + ")", aty
			}
			return "(" + a + " / " + b + ")", aty
		case token.REM:
			if aty.signed {
				return "(BitVec.srem " + a + " " + b + ")", aty
			}
			return "(" + a + " % " + b + ")", aty
		case token.AND:
			return "(" + a + " &&& " + b + ")", aty
		case token.OR:
			return "(" + a + " ||| " + b + ")", aty
		case token.XOR:
			return "(" + a + " ^^^ " + b + ")", aty
		case token.AND_NOT:
			return "(" + a + " &&& ~~~" + b + ")", aty
		}
	case kExact:
		t.fail(at, "floating-point arithmetic (operator %s)", op)
	}
	t.fail(at, "operator %s on %s", op, aty)
	return "", kType{}
}

func (t *ktr) compare(at ast.Node, x ast.Expr, op token.Token, y ast.Expr) string {
	isNil := func(e ast.Expr) bool {
		id, ok := unparen(e).(*ast.Ident)
		if !ok {
			return false
		}
		_, n := t.info.Uses[id].(*types.Nil)
		return n
	}
	if (op == token.EQL || op == token.NEQ) && (isNil(x) || isNil(y)) {
		other := x
		if isNil(x) {
			other = y
		}
		a, aty := t.expr(other)
		if aty.k != kErrT && aty.k != kElemOpt {
			t.fail(at, "comparison of a %s with nil", aty)
		}
		if op == token.EQL {
			return "(" + a + " = none)"
		}
		return "(" + a + " ≠ none)"
	}
	a, aty := t.expr(x)
	b, bty := t.expr(y)
	if aty.k == kUntyped {
		aty = bty
	}
	if bty.k == kUntyped {
		bty = aty
	}
	if aty != bty {
		t.fail(at, "comparison of a %s with a %s", aty, bty)
	}
	sym := map[token.Token]string{token.EQL: "=", token.NEQ: "≠", token.LSS: "<", token.LEQ: "≤", token.GTR: ">", token.GEQ: "≥"}[op]
	if sym == "" {
		t.fail(at, "comparison operator %s", op)
	}
	ordered := op != token.EQL && op != token.NEQ
	switch {
	case aty.k == kElem, aty.k == kList, aty.k == kErrT:
		t.fail(at, "comparison of %ss", aty)
	case aty.k == kId && ordered:
		t.fail(at, "ordered comparison %s of opaque identities", op)
	case aty.k == kBool && ordered, aty.k == kExact, aty.k == kStr && ordered, aty.k == kAny, aty.k == kRec, aty.k == kFunc:
		t.fail(at, "comparison %s on %s", op, aty)
	case aty.k == kBV && aty.signed && ordered:
		return "(BitVec.toInt " + a + " " + sym + " BitVec.toInt " + b + ")"
	}
	return "(" + a + " " + sym + " " + b + ")"
}

// prop translates a condition to a decidable Prop.
func (t *ktr) prop(e ast.Expr) string {
	e = unparen(e)
	if f := t.fieldMatch(e); f != nil {
		if f.ty.k != kBool {
			t.fail(e, "`%s` used as a condition", exprStr(e))
		}
		f.used = true
		return "(" + f.f.name + " = true)"
	}
	if tv := t.info.Types[e]; tv.Value != nil {
		return t.constLit(tv.Value, t.typeOf(tv.Type, e), e, true)
	}
	switch x := e.(type) {
	case *ast.BinaryExpr:
		switch x.Op {
		case token.LAND, token.LOR:
			a := t.prop(x.X)
			ok := t.hoistOK
			t.hoistOK = false // the right operand is evaluated conditionally
			b := t.prop(x.Y)
			t.hoistOK = ok
			if x.Op == token.LAND {
				return "(" + a + " ∧ " + b + ")"
			}
			return "(" + a + " ∨ " + b + ")"
		case token.EQL, token.NEQ, token.LSS, token.LEQ, token.GTR, token.GEQ:
			return t.compare(x, x.X, x.Op, x.Y)
		}
	case *ast.UnaryExpr:
		if x.Op == token.NOT {
			return "(¬ " + t.prop(x.X) + ")"
		}
	case *ast.Ident, *ast.CallExpr:
		a, aty := t.expr(e)
		if aty.k == kBool {
			return "(" + a + " = true)"
		}
	}
	t.fail(e, "condition `%s` (%T)", exprStr(e), e)
	return ""
}

// boolExpr translates an expression of any supported type in value position.
func (t *ktr) value(e ast.Expr, want kType) string {
	if want.k == kErrT {
		return t.errValue(e)
	}
	if want.k == kRec {
		if u, ok := unparen(e).(*ast.UnaryExpr); ok && u.Op == token.AND {
			return t.recordLit(e, want.elem)
		}
	}
	if want.k == kElemOpt && len(t.spec.structs) > 0 {
		// a nilable struct pointer: nil ↦ none, &T{..} ↦ some (record)
		if id, ok := unparen(e).(*ast.Ident); ok {
			if _, isNil := t.info.Uses[id].(*types.Nil); isNil {
				return "none"
			}
		}
		if u, ok := unparen(e).(*ast.UnaryExpr); ok && u.Op == token.AND {
			return "(some " + t.recordLit(e, want.elem) + ")"
		}
	}
	if want.k == kRat {
		if tv := t.info.Types[unparen(e)]; tv.Value != nil {
			return t.constLit(tv.Value, want, e, false)
		}
	}
	if id, ok := unparen(e).(*ast.Ident); ok && want.k == kList {
		if _, isNil := t.info.Uses[id].(*types.Nil); isNil {
			return "[]" // a nil slice is the empty list
		}
	}
	s, ty := t.expr(e)
	if ty.k == kUntyped && want.k != kBool {
		ty = want
	}
	if ty != want {
		t.fail(e, "`%s` has type %s where %s is expected", exprStr(e), ty, want)
	}
	return s
}

// kCauses: the error sentinels returned by the translated kernels (constructors of `Cause`).
var kCauses = map[string]bool{}

// errValue translates an error result: nil, a sentinel `ErrX`, or `&T{.., Err: ErrX}` (the
// struct type T and its other fields are ignored: the sentinel is what the model compares).
func (t *ktr) errValue(e ast.Expr) string {
	e = unparen(e)
	if t.spec.errLean != "" && errValueHook != nil {
		return errValueHook(t, e)
	}
	sentinel := func(x ast.Expr) (string, bool) {
		id, ok := unparen(x).(*ast.Ident)
		if !ok {
			return "", false
		}
		v, ok := t.info.Uses[id].(*types.Var)
		if !ok || v.Pkg() == nil || v.Parent() != v.Pkg().Scope() || !strings.HasPrefix(id.Name, "Err") ||
			!types.Identical(v.Type(), types.Universe.Lookup("error").Type()) {
			return "", false
		}
		kCauses[id.Name] = true
		return "(some Cause." + id.Name + ")", true
	}
	if id, ok := e.(*ast.Ident); ok {
		if _, isNil := t.info.Uses[id].(*types.Nil); isNil {
			return "none"
		}
		if name, ok := t.vars[t.info.Uses[id]]; ok && t.names[name].k == kErrT {
			return name
		}
		if s, ok := sentinel(id); ok {
			return s
		}
	}
	if u, ok := e.(*ast.UnaryExpr); ok && u.Op == token.AND {
		if cl, ok := u.X.(*ast.CompositeLit); ok {
			var found string
			for _, el := range cl.Elts {
				kv, ok := el.(*ast.KeyValueExpr)
				if !ok {
					t.fail(e, "error literal `%s` without field names", exprStr(e))
				}
				if k, ok := kv.Key.(*ast.Ident); ok && k.Name == "Err" {
					if vid, isID := unparen(kv.Value).(*ast.Ident); isID {
						if name, ok := t.vars[t.info.Uses[vid]]; ok && t.names[name].k == kErrT {
							found = name // the cause of a callee, passed through
							continue
						}
					}
					s, ok := sentinel(kv.Value)
					if !ok {
						t.fail(kv, "error cause `%s` that is not a package-level sentinel Err*", exprStr(kv.Value))
					}
					found = s
				}
			}
			if found == "" {
				t.fail(e, "error literal `%s` without an `Err:` sentinel", exprStr(e))
			}
			return found
		}
	}
	t.fail(e, "error result `%s` (only nil, a sentinel Err*, or &T{.., Err: Err*} are supported)", exprStr(e))
	return ""
}

func (t *ktr) declare(id *ast.Ident, ty kType) string {
	obj := t.info.Defs[id]
	if obj == nil {
		t.fail(id, "redeclaration of `%s`", id.Name)
	}
	name := mangle(id.Name)
	if _, clash := t.names[name]; clash {
		t.fail(id, "declaration of `%s` shadows a visible variable", id.Name)
	}
	if name == "rest_" {
		t.fail(id, "variable name `rest_` is reserved by the translator")
	}
	t.vars[obj] = name
	t.names[name] = ty
	t.scope = append(t.scope, kVar{name, ty})
	return name
}

func (t *ktr) block(list []ast.Stmt) []kStmt {
	savedV := map[types.Object]string{}
	for k, v := range t.vars {
		savedV[k] = v
	}
	savedN := map[string]kType{}
	for k, v := range t.names {
		savedN[k] = v
	}
	nscope := len(t.scope)
	var out []kStmt
	for _, s := range list {
		out = append(out, t.stmt(s)...)
	}
	t.vars, t.names, t.scope = savedV, savedN, t.scope[:nscope:nscope]
	return out
}

var assignOps = map[token.Token]token.Token{
	token.ADD_ASSIGN: token.ADD, token.SUB_ASSIGN: token.SUB, token.MUL_ASSIGN: token.MUL,
	token.QUO_ASSIGN: token.QUO, token.REM_ASSIGN: token.REM, token.AND_ASSIGN: token.AND,
	token.OR_ASSIGN: token.OR, token.XOR_ASSIGN: token.XOR, token.SHL_ASSIGN: token.SHL,
	token.SHR_ASSIGN: token.SHR, token.AND_NOT_ASSIGN: token.AND_NOT,
}

func (t *ktr) assigned(id ast.Expr) (string, kType) {
	x, ok := unparen(id).(*ast.Ident)
	if !ok {
		t.fail(id, "assignment to `%s` (only local variables and parameters may be assigned)", exprStr(id))
	}
	obj := t.info.Uses[x]
	name, ok := t.vars[obj]
	if !ok {
		t.fail(id, "assignment to `%s`, which is not a local variable or a parameter of the kernel", x.Name)
	}
	return name, t.typeOf(obj.Type(), x)
}

// stmt translates one statement; the index expressions hoisted out of it precede it.
func (t *ktr) stmt(s ast.Stmt) []kStmt {
	savedP, savedOK := t.pending, t.hoistOK
	_, isAssign := s.(*ast.AssignStmt)
	t.pending, t.hoistOK = nil, t.spec.hoistIndex && isAssign
	out := t.stmt1(s)
	pre := t.pending
	t.pending, t.hoistOK = savedP, savedOK
	if len(pre) == 0 {
		return out
	}
	return append(pre, out...)
}

func (t *ktr) stmt1(s ast.Stmt) []kStmt {
	for _, h := range stmtHooks {
		if out, ok := h(t, s); ok {
			return out
		}
	}
	if as, ok := s.(*ast.AssignStmt); ok {
		if out, ok := t.recordListStmt(as); ok {
			return out
		}
	}
	if t.spec.state != nil {
		if out, ok := t.stateStmt(s); ok {
			return out
		}
	}
	switch x := s.(type) {
	case *ast.EmptyStmt:
		return nil
	case *ast.BlockStmt:
		return t.block(x.List)
	case *ast.ReturnStmt:
		if len(x.Results) != len(t.res) {
			t.fail(x, "return of %d values in a function with %d results (named results are not supported)", len(x.Results), len(t.res))
		}
		var vs []string
		for i, r := range x.Results {
			vs = append(vs, t.value(r, t.res[i]))
		}
		if len(vs) == 1 {
			return []kStmt{kRet{vs[0]}}
		}
		return []kStmt{kRet{"(" + strings.Join(vs, ", ") + ")"}}
	case *ast.AssignStmt:
		if len(x.Lhs) != 1 || len(x.Rhs) != 1 {
			t.fail(x, "assignment with %d left-hand and %d right-hand sides", len(x.Lhs), len(x.Rhs))
		}
		switch {
		case x.Tok == token.DEFINE:
			id, ok := x.Lhs[0].(*ast.Ident)
			if !ok {
				t.fail(x, "definition of `%s`", exprStr(x.Lhs[0]))
			}
			if ix, ok := unparen(x.Rhs[0]).(*ast.IndexExpr); ok && t.fieldMatch(ix) == nil {
				ls, lty := t.expr(ix.X)
				if lty.k != kList {
					t.fail(ix, "index into a %s (only a parameterised slice may be indexed)", lty)
				}
				idx := t.value(ix.Index, kType{k: kInt})
				if id.Name == "_" {
					t.fail(ix, "index expression assigned to _")
				}
				if t.isMapParam(ls) {
					t.fail(ix, "index into the map `%s`", exprStr(ix.X))
				}
				if t.countedIdx != "" && idx == t.countedIdx && t.spec.state != nil && ls == t.fields[t.spec.state.slice].f.name {
					// s[i] for the loop variable i of `for i := a; i < len(s); i++`: the current element
					ety := kType{k: kElem, elem: lty.elem}
					name := t.declare(id, ety)
					t.alias[name] = true
					return []kStmt{kLet{name, "cur_", ety, true}}
				}
				ety := kType{k: kElem, elem: lty.elem}
				if lty.elem == "Int" {
					ety = kType{k: kInt}
				}
				return []kStmt{kIndex{name: t.declare(id, ety), list: ls, idx: idx, ty: ety}}
			}
			rhs, ty := t.expr(x.Rhs[0])
			if ty.k == kUntyped {
				ty = kType{k: kInt}
			}
			if id.Name == "_" {
				return nil
			}
			return []kStmt{kLet{t.declare(id, ty), rhs, ty, true}}
		case x.Tok == token.ASSIGN:
			name, ty := t.assigned(x.Lhs[0])
			return []kStmt{kLet{name, t.value(x.Rhs[0], ty), ty, false}}
		default:
			op, ok := assignOps[x.Tok]
			if !ok {
				t.fail(x, "assignment operator %s", x.Tok)
			}
			name, ty := t.assigned(x.Lhs[0])
			rhs, _ := t.binary(x, x.Lhs[0], op, x.Rhs[0], ty)
			return []kStmt{kLet{name, rhs, ty, false}}
		}
	case *ast.IncDecStmt:
		name, ty := t.assigned(x.X)
		op := " + "
		if x.Tok == token.DEC {
			op = " - "
		}
		one := t.constLit(constant.MakeInt64(1), ty, x, false)
		if ty.k != kInt && ty.k != kBV {
			t.fail(x, "%s on a %s", x.Tok, ty)
		}
		return []kStmt{kLet{name, "(" + name + op + one + ")", ty, false}}
	case *ast.DeclStmt:
		gd, ok := x.Decl.(*ast.GenDecl)
		if !ok || gd.Tok != token.VAR {
			t.fail(x, "local declaration `%s`", exprStr(x))
		}
		var out []kStmt
		for _, sp := range gd.Specs {
			vs := sp.(*ast.ValueSpec)
			if len(vs.Names) != 1 || len(vs.Values) > 1 {
				t.fail(x, "var declaration of several variables")
			}
			ty := t.typeOf(t.info.Defs[vs.Names[0]].Type(), vs)
			var rhs string
			if len(vs.Values) == 1 {
				rhs = t.value(vs.Values[0], ty)
			} else if ty.k == kBool {
				rhs = "false"
			} else if ty.k == kElemOpt {
				rhs = "none"
			} else if ty.k == kStr {
				rhs = "\"\""
			} else if ty.k == kAny {
				rhs = "Acme.GoSem.Any.nil"
			} else if ty.k == kRec || ty.k == kList || ty.k == kErrT || ty.k == kId {
				t.fail(x, "var declaration of a %s without a value", ty)
			} else {
				rhs = t.constLit(constant.MakeInt64(0), ty, x, false)
			}
			out = append(out, kLet{t.declare(vs.Names[0], ty), rhs, ty, true})
		}
		return out
	case *ast.IfStmt:
		if x.Init != nil {
			t.fail(x, "if statement with an init statement")
		}
		cond := t.prop(x.Cond)
		then := t.block(x.Body.List)
		var els []kStmt
		switch e := x.Else.(type) {
		case nil:
		case *ast.BlockStmt:
			els = t.block(e.List)
		case *ast.IfStmt:
			els = t.block([]ast.Stmt{e})
		default:
			t.fail(x, "else branch %T", e)
		}
		return []kStmt{kIf{cond, then, els, "if", x.Pos(), ""}}
	case *ast.SwitchStmt:
		if x.Init != nil {
			t.fail(x, "switch statement with an init statement")
		}
		type clause struct {
			cond string
			body []kStmt
		}
		var clauses []clause
		var deflt []kStmt
		for _, c := range x.Body.List {
			cc := c.(*ast.CaseClause)
			for _, b := range cc.Body {
				if br, isBr := b.(*ast.BranchStmt); isBr && br.Tok != token.CONTINUE {
					t.fail(b, "break / fallthrough in a switch")
				}
			}
			t.inSwitch++
			body := t.block(cc.Body)
			t.inSwitch--
			if cc.List == nil {
				deflt = body
				continue
			}
			var cs []string
			for _, e := range cc.List {
				if x.Tag != nil {
					cs = append(cs, t.compare(e, x.Tag, token.EQL, e))
				} else {
					cs = append(cs, t.prop(e))
				}
			}
			cond := cs[0]
			if len(cs) > 1 {
				cond = "(" + strings.Join(cs, " ∨ ") + ")"
			}
			clauses = append(clauses, clause{cond, body})
		}
		if len(clauses) == 0 {
			return deflt
		}
		cur := deflt
		for i := len(clauses) - 1; i >= 0; i-- {
			cur = []kStmt{kIf{clauses[i].cond, clauses[i].body, cur, "switch", x.Pos(), ""}}
		}
		return cur
	case *ast.BranchStmt:
		if x.Tok == token.GOTO && x.Label != nil {
			return []kStmt{kGoto{x.Label.Name}}
		}
		if x.Label != nil {
			t.fail(x, "labelled %s", x.Tok)
		}
		if t.inLoop == 0 {
			t.fail(x, "%s outside a translated loop", x.Tok)
		}
		switch x.Tok {
		case token.BREAK:
			if t.inSwitch > 0 {
				t.fail(x, "break inside a switch inside a loop")
			}
			return []kStmt{kBreak{}}
		case token.CONTINUE:
			return []kStmt{kContinue{}}
		}
		t.fail(x, "%s statement", x.Tok)
	case *ast.LabeledStmt:
		return append([]kStmt{kLabel{x.Label.Name}}, t.stmt(x.Stmt)...)
	case *ast.RangeStmt:
		if t.inLoop > 0 {
			t.fail(x, "nested loop (only a counted integer loop may be nested in a range loop)")
		}
		if x.Tok != token.DEFINE && (x.Key != nil || x.Value != nil) {
			t.fail(x, "range loop that assigns existing variables")
		}
		ls, lty := t.expr(x.X)
		if lty.k != kList {
			t.fail(x, "range over `%s` (only a parameterised slice may be iterated)", exprStr(x.X))
		}
		lp := kLoop{list: ls, elem: "_", elemTy: kType{k: kElem, elem: lty.elem}, pos: x.Pos(),
			vars: append([]kVar(nil), t.scope...)}
		// scope of the key / value variables and of the body
		savedV := map[types.Object]string{}
		for k, v := range t.vars {
			savedV[k] = v
		}
		savedN := map[string]kType{}
		for k, v := range t.names {
			savedN[k] = v
		}
		nscope := len(t.scope)
		if id, ok := x.Key.(*ast.Ident); x.Key != nil && (!ok || id.Name != "_") {
			if !ok {
				t.fail(x, "range key `%s`", exprStr(x.Key))
			}
			if t.isMapParam(ls) {
				t.fail(x, "range key over the map `%s`", exprStr(x.X))
			}
			lp.idx = t.declare(id, kType{k: kInt})
		}
		if id, ok := x.Value.(*ast.Ident); x.Value != nil && (!ok || id.Name != "_") {
			if !ok {
				t.fail(x, "range value `%s`", exprStr(x.Value))
			}
			lp.elem = t.declare(id, lp.elemTy)
		}
		lp.listTy = lty
		if t.spec.state != nil && t.fields[t.spec.state.slice] != nil && ls == t.fields[t.spec.state.slice].f.name {
			lp.stateful = true
			if lp.elem == "_" {
				t.fail(x, "loop over %s without a range variable", t.spec.state.slice)
			}
			t.loopElem = lp.elem
		}
		t.inLoop++
		sw := t.inSwitch
		t.inSwitch = 0
		lp.body = t.block(x.Body.List)
		t.inSwitch = sw
		t.inLoop--
		t.loopElem = ""
		t.vars, t.names, t.scope = savedV, savedN, t.scope[:nscope:nscope]
		var asg []kLet
		outerAssigned(lp.body, map[string]bool{}, map[string]bool{}, &asg)
		for _, a := range asg {
			if a.name == lp.idx || (a.name == lp.elem && !lp.stateful) {
				t.fail(x, "loop body assigns the range variable `%s`", a.name)
			}
		}
		return []kStmt{lp}
	case *ast.ForStmt:
		if c, ok := unparen(x.Cond).(*ast.BinaryExpr); ok && t.spec.state != nil && exprStr(c.Y) == "len("+t.spec.state.slice+")" {
			return t.countedLoop(x)
		}
		return t.fuelLoop(x)
	case *ast.GoStmt, *ast.DeferStmt, *ast.SelectStmt, *ast.SendStmt:
		t.fail(s, "statement %T", s)
	}
	t.fail(s, "statement `%s` (%T)", exprStr(s), s)
	return nil
}

// ---- emission ----

// terminates: control never reaches the statement after ss (return / break / continue on all paths)
func terminates(ss []kStmt) bool {
	if len(ss) == 0 {
		return false
	}
	switch x := ss[len(ss)-1].(type) {
	case kRet, kBreak, kContinue, kGoto:
		return true
	case kIf:
		return terminates(x.then) && terminates(x.els)
	}
	return false
}

// hasJump: ss contains a return / break / continue / loop / index (which may leave with a panic)
func hasJump(ss []kStmt) bool {
	for _, s := range ss {
		switch x := s.(type) {
		case kRet, kBreak, kContinue, kLoop, kIndex, kBind, kStruct, kFor, kGoto, kLabel:
			return true
		case kIf:
			if hasJump(x.then) || hasJump(x.els) {
				return true
			}
		}
	}
	return false
}

func hasRet(ss []kStmt) bool {
	for _, s := range ss {
		switch x := s.(type) {
		case kRet:
			return true
		case kIf:
			if hasRet(x.then) || hasRet(x.els) {
				return true
			}
		}
	}
	return false
}

func hasIndex(ss []kStmt) bool {
	for _, s := range ss {
		switch x := s.(type) {
		case kIndex, kBind:
			return true
		case kIf:
			if hasIndex(x.then) || hasIndex(x.els) {
				return true
			}
		case kLoop:
			if hasIndex(x.body) || x.start != "" {
				return true
			}
		case kFor:
			if hasIndex(x.body) {
				return true
			}
		}
	}
	return false
}

// outerAssigned lists (in order of first assignment) the variables assigned in ss that are not
// declared in ss.
func outerAssigned(ss []kStmt, declared map[string]bool, seen map[string]bool, out *[]kLet) {
	for _, s := range ss {
		switch x := s.(type) {
		case kLet:
			if x.decl {
				declared[x.name] = true
			} else if !declared[x.name] && !seen[x.name] {
				seen[x.name] = true
				*out = append(*out, x)
			}
		case kIndex:
			if !x.opt {
				declared[x.name] = true
			}
		case kBind:
			declared[x.name] = true
		case kIf:
			for _, br := range [][]kStmt{x.then, x.els} {
				d := map[string]bool{}
				for k := range declared {
					d[k] = true
				}
				outerAssigned(br, d, seen, out)
			}
		case kLoop:
			d := map[string]bool{}
			for k := range declared {
				d[k] = true
			}
			outerAssigned(x.body, d, seen, out)
		case kFor:
			d := map[string]bool{}
			for k := range declared {
				d[k] = true
			}
			outerAssigned(x.body, d, seen, out)
		}
	}
}

func pad(n int) string { return strings.Repeat("  ", n) }

func ifEmpty(s, alt string) string {
	if s == "" {
		return alt
	}
	return s
}

// resLean is the Lean result type of the kernel (and of its loops and continuations).
func (t *ktr) resLean() string {
	var rs []string
	for _, r := range t.res {
		rs = append(rs, r.lean())
	}
	if st := t.spec.state; st != nil {
		parts := []string{t.fields[st.slice].ty.lean()}
		if st.outSize {
			parts = append(parts, "Int")
		}
		rs = append(parts, rs...)
	}
	r := strings.Join(rs, " × ")
	if t.mayPanic {
		return "Acme.GoSem.Res (" + r + ")"
	}
	return r
}

func varParams(vs []kVar) (params, args string) {
	for _, v := range vs {
		params += " (" + v.name + " : " + v.ty.lean() + ")"
		args += " " + v.name
	}
	return
}

// emit prints the statements ss as a Lean term; k prints what follows when control reaches the
// end of ss.  A loop `for i, x := range l { body }; rest` becomes two definitions over ALL the
// variables vs visible at the loop:
//
//	F_afterN vs           := rest
//	F_loopN  vs [i]       : List elem → result
//	  | []          => F_afterN vs
//	  | x :: rest_  => body     with  return e ↦ e,  break ↦ F_afterN vs,
//	                                  continue / end of body ↦ F_loopN vs [(i+1)] rest_
//
// (assignments shadow, so `vs` at a jump denotes the current values: loop-carried variables are
// accumulator arguments) and the loop statement itself becomes `F_loopN vs [0] l`.
func (t *ktr) emit(ss []kStmt, ind int, k func(ind int) string) string {
	if len(ss) == 0 {
		return k(ind)
	}
	rest := func(ind int) string { return t.emit(ss[1:], ind, k) }
	for j, s := range ss { // forward labels of this statement list
		if lb, ok := s.(kLabel); ok && j > 0 {
			tail := ss[j+1:]
			if t.labels == nil {
				t.labels = map[string]func(int) string{}
			}
			name := lb.name
			t.labels[name] = func(ind int) string {
				if t.labelBusy[name] {
					panic(kErr{token.NoPos, "goto " + name + " from the statements after the label (a backward jump: a loop)"})
				}
				if t.labelBusy == nil {
					t.labelBusy = map[string]bool{}
				}
				t.labelBusy[name] = true
				r := t.emit(tail, ind, k)
				t.labelBusy[name] = false
				return r
			}
		}
	}
	only := func(what string) {
		if len(ss) > 1 {
			panic(kErr{token.NoPos, "statements after a " + what})
		}
	}
	switch s := ss[0].(type) {
	case kRet:
		only("return")
		if t.mayPanic {
			return pad(ind) + "(Acme.GoSem.Res.val " + s.val + ")\n"
		}
		return pad(ind) + s.val + "\n"
	case kBreak:
		only("break")
		return pad(ind) + t.loop.brk + "\n"
	case kGoto:
		only("goto")
		f, ok := t.labels[s.label]
		if !ok {
			panic(kErr{token.NoPos, "goto " + s.label + ": only a forward jump to a label at the top level of the enclosing statement list is translated"})
		}
		return f(ind)
	case kLabel:
		return rest(ind)
	case kFor:
		t.nloops++
		loopName := fmt.Sprintf("%s_loop%d", t.spec.lean, t.nloops)
		params, args := varParams(s.vars)
		if !hasRet(s.body) {
			// no return in the body: the loop is a function from the variables to the new values
			// of the variables the body assigns (so a loop nested in a range loop does not have
			// to call the outer loop back)
			var carried []kLet
			outerAssigned(s.body, map[string]bool{}, map[string]bool{}, &carried)
			if len(carried) == 0 {
				panic(kErr{s.pos, "counted loop without effect"})
			}
			var ns, ts []string
			for _, v := range carried {
				ns = append(ns, v.name)
				ts = append(ts, v.ty.lean())
			}
			pat := ns[0]
			if len(ns) > 1 {
				pat = "(" + strings.Join(ns, ", ") + ")"
			}
			sigma := strings.Join(ts, " × ")
			saved := t.loop
			t.loop = &kLoopCtx{brk: pat, cont: "(" + loopName + args + " (" + s.idx + " + (1 : Int)) fuel_)"}
			cont := t.loop.cont
			savedLabels := t.labels
			t.labels = nil
			body := t.emit(s.body, 2, func(ind int) string { return pad(ind) + cont + "\n" })
			t.labels = savedLabels
			t.loop = saved
			t.aux = append(t.aux, "def "+loopName+params+" ("+s.idx+" : Int) : Nat → "+sigma+"\n"+
				"  | 0 => "+pat+"\n  | fuel_ + 1 =>\n"+body+"\n")
			return pad(ind) + "let " + pat + " : " + sigma + " := (" + loopName + args + " " + s.start + " " + s.fuel + ")\n" + rest(ind)
		}
		if t.loop != nil {
			panic(kErr{s.pos, "return inside a counted loop that is nested in a range loop"})
		}
		afterName := fmt.Sprintf("%s_after%d", t.spec.lean, t.nloops)
		after := t.emit(ss[1:], 1, k)
		t.aux = append(t.aux, "def "+afterName+params+" : "+t.resLean()+" :=\n"+after+"\n")
		saved := t.loop
		t.loop = &kLoopCtx{brk: "(" + afterName + args + ")",
			cont: "(" + loopName + args + " (" + s.idx + " + (1 : Int)) fuel_)"}
		cont := t.loop.cont
		body := t.emit(s.body, 2, func(ind int) string { return pad(ind) + cont + "\n" })
		brk := t.loop.brk
		t.loop = saved
		t.aux = append(t.aux, "def "+loopName+params+" ("+s.idx+" : Int) : Nat → "+t.resLean()+"\n"+
			"  | 0 => "+brk+"\n  | fuel_ + 1 =>\n"+body+"\n")
		return pad(ind) + "(" + loopName + args + " " + s.start + " " + s.fuel + ")\n"
	case kContinue:
		only("continue")
		if t.loop.cont == "" {
			panic(kErr{token.NoPos, "continue after the state slice was reassigned inside the loop (the Go loop goes on over the old slice)"})
		}
		return pad(ind) + t.loop.cont + "\n"
	case kLet:
		return pad(ind) + "let " + s.name + " : " + s.ty.lean() + " := " + s.rhs + "\n" + rest(ind)
	case kIndex:
		if s.opt {
			return pad(ind) + "(match Acme.GoSem.index? " + s.list + " " + s.idx + " with\n" +
				pad(ind) + "| none => Acme.GoSem.Res.panic\n" +
				pad(ind) + "| some v_ =>\n" +
				pad(ind+1) + "let " + s.name + " : Option " + s.ty.elem + " := some v_\n" + rest(ind+1) + pad(ind) + ")\n"
		}
		return pad(ind) + "(match Acme.GoSem.index? " + s.list + " " + s.idx + " with\n" +
			pad(ind) + "| none => Acme.GoSem.Res.panic\n" +
			pad(ind) + "| some " + s.name + " =>\n" + rest(ind+1) + pad(ind) + ")\n"
	case kBind:
		return pad(ind) + "(match " + s.call + " with\n" +
			pad(ind) + "| Acme.GoSem.Res.panic => Acme.GoSem.Res.panic\n" +
			pad(ind) + "| Acme.GoSem.Res.val " + s.name + " =>\n" + rest(ind+1) + pad(ind) + ")\n"
	case kStruct:
		if t.loop == nil {
			return rest(ind)
		}
		saved := t.loop
		t.loop = &kLoopCtx{brk: saved.brk, cont: "", hiddenParams: saved.hiddenParams, hiddenArgs: saved.hiddenArgs}
		r := rest(ind)
		t.loop = saved
		return r
	case kLoop:
		t.nloops++
		loopName := fmt.Sprintf("%s_loop%d", t.spec.lean, t.nloops)
		afterName := fmt.Sprintf("%s_after%d", t.spec.lean, t.nloops)
		params, args := varParams(s.vars)
		// what follows the loop (may contain further loops: their definitions come first)
		after := t.emit(ss[1:], 1, k)
		t.aux = append(t.aux, "def "+afterName+params+" : "+t.resLean()+" :=\n"+after+"\n")
		idxParam, idxNext, idxInit := "", "", ""
		if s.idx != "" {
			idxParam, idxNext, idxInit = " ("+s.idx+" : Int)", " ("+s.idx+" + (1 : Int))", " (0 : Int)"
		}
		saved := t.loop
		preParam, preNext, preInit, nilBind, consBind := "", "", "", "", ""
		if s.stateful {
			lt := s.listTy.lean()
			preParam, preNext, preInit = " (pre_ : "+lt+")", " (pre_ ++ ["+s.elem+"])", " []"
			nilBind = "\n" + pad(2) + "let " + s.list + " : " + lt + " := pre_\n" + pad(2)
			consBind = pad(2) + "let " + s.list + " : " + lt + " := (pre_ ++ " + s.elem + " :: rest_)\n"
		}
		hidP, hidA := " (rest_ : List "+s.elemTy.elem+")", " rest_"
		if s.stateful {
			hidP, hidA = " (pre_ : "+s.listTy.lean()+")"+hidP, " pre_"+hidA
		}
		t.loop = &kLoopCtx{brk: "(" + afterName + args + ")", cont: "(" + loopName + args + idxNext + preNext + " rest_)",
			hiddenParams: hidP, hiddenArgs: hidA}
		body := t.emit(s.body, 2, func(ind int) string {
			if t.loop.cont == "" {
				panic(kErr{s.pos, "the loop body goes on after the state slice was reassigned (the Go loop would continue over the old slice): break or return"})
			}
			return pad(ind) + t.loop.cont + "\n"
		})
		brk := t.loop.brk
		t.loop = saved
		t.aux = append(t.aux, "def "+loopName+params+idxParam+preParam+" : List "+s.elemTy.elem+" → "+t.resLean()+"\n"+
			"  | [] =>"+ifEmpty(nilBind, " ")+brk+"\n  | "+s.elem+" :: rest_ =>\n"+consBind+body+"\n")
		if s.start != "" {
			// for i := a; i < len(list); i++: the elements from a on; a negative start is a panic
			// (the Go loop would index with it)
			return pad(ind) + "if (" + s.start + " < (0 : Int)) then\n" + pad(ind+1) + "Acme.GoSem.Res.panic\n" + pad(ind) + "else\n" +
				pad(ind+1) + "(" + loopName + args + " " + s.start + " (List.take (Int.toNat " + s.start + ") " + s.list + ") (List.drop (Int.toNat " + s.start + ") " + s.list + "))\n"
		}
		return pad(ind) + "(" + loopName + args + idxInit + preInit + " " + s.list + ")\n"
	case kIf:
		ite := func(ind int, a, b string) string {
			if s.optVar != "" {
				return pad(ind) + "(match " + s.optVar + " with\n" + pad(ind) + "| some " + s.optVar + " =>\n" + a +
					pad(ind) + "| none =>\n" + b + pad(ind) + ")\n"
			}
			return pad(ind) + "if " + s.cond + " then\n" + a + pad(ind) + "else\n" + b
		}
		tT, tE := terminates(s.then), terminates(s.els)
		if tT || tE {
			if tT && tE && len(ss) > 1 {
				panic(kErr{s.pos, "statements after an " + s.what + " all of whose branches return"})
			}
			return ite(ind, t.emit(s.then, ind+1, rest), t.emit(s.els, ind+1, rest))
		}
		if hasJump(s.then) || hasJump(s.els) {
			// a branch returns / breaks / continues / indexes on some paths only: no join is
			// possible; what follows the conditional is emitted in both branches
			return ite(ind, t.emit(s.then, ind+1, rest), t.emit(s.els, ind+1, rest))
		}
		var vars []kLet
		outerAssigned([]kStmt{s}, map[string]bool{}, map[string]bool{}, &vars)
		if len(vars) == 0 {
			panic(kErr{s.pos, s.what + " without effect (no return and no assignment to an outer variable)"})
		}
		// join: the outer variables assigned in the branches are the value of the conditional
		var ns, ts []string
		for _, v := range vars {
			ns = append(ns, v.name)
			ts = append(ts, v.ty.lean())
		}
		pat := ns[0]
		if len(ns) > 1 {
			pat = "(" + strings.Join(ns, ", ") + ")"
		}
		kv := func(ind int) string { return pad(ind) + pat + "\n" }
		r := pad(ind) + "let " + pat + " : " + strings.Join(ts, " × ") + " :=\n" +
			ite(ind+1, t.emit(s.then, ind+2, kv), t.emit(s.els, ind+2, kv))
		return r + rest(ind)
	}
	panic(kErr{token.NoPos, fmt.Sprintf("internal: statement %T", ss[0])})
}

// aliasRoot: for the root `x` of a parameterised read where `x := p.f..` is listed in
// kernelSpec.aliases, the parameter p ("" otherwise).  The alias statement itself is checked and
// dropped by the statement hook of kernels_value.go; x is not a variable of the translation, so
// any other use (in particular an assignment) is an error.
func (t *ktr) aliasRoot(root *ast.Ident) string {
	target, ok := t.spec.aliases[root.Name]
	if !ok {
		return ""
	}
	if _, isVar := t.info.Uses[root].(*types.Var); !isVar {
		return ""
	}
	return strings.SplitN(target, ".", 2)[0]
}

// sliceParam: a Go parameter `p []uintN` / `p []int` listed in kernelSpec.sliceParams is the
// Lean parameter `p : List (BitVec N)` / `List Int` (read with len, range and index only).
func (t *ktr) sliceParam(obj types.Object, id *ast.Ident) (kType, bool) {
	listed := false
	for _, n := range t.spec.sliceParams {
		listed = listed || n == id.Name
	}
	if !listed || obj == nil {
		return kType{}, false
	}
	st, ok := obj.Type().Underlying().(*types.Slice)
	if !ok {
		t.fail(id, "parameter `%s` is listed as a slice parameter but has type %s", id.Name, obj.Type())
	}
	et := t.typeOf(st.Elem(), id)
	if et.k != kInt && !(et.k == kBV && !et.signed) {
		t.fail(id, "slice parameter `%s` with elements of type %s (only int and unsigned sized integers)", id.Name, et)
	}
	return kType{k: kList, elem: et.lean()}, true
}

func rootIdent(e ast.Expr) *ast.Ident {
	for {
		switch x := e.(type) {
		case *ast.Ident:
			return x
		case *ast.ParenExpr:
			e = x.X
		case *ast.SelectorExpr:
			e = x.X
		case *ast.BinaryExpr:
			e = x.X
		case *ast.StarExpr:
			e = x.X
		case *ast.UnaryExpr:
			e = x.X
		case *ast.IndexExpr:
			e = x.X
		case *ast.CallExpr:
			e = x.Fun
		default:
			return nil
		}
	}
}

func translateKernel(spec *kernelSpec, p *packages.Package, funcs map[types.Object]*kernelOut) *kernelOut {
	var fd *ast.FuncDecl
	for _, f := range inFiles(p, []string{spec.file}) {
		for _, d := range f.Decls {
			if x, ok := d.(*ast.FuncDecl); ok && x.Body != nil && funcName(x) == spec.goName {
				fd = x
			}
		}
	}
	t := &ktr{spec: spec, info: p.TypesInfo, fd: fd, fields: map[string]*kFieldUse{},
		vars: map[types.Object]string{}, names: map[string]kType{}, funcs: funcs, stale: map[string]bool{}, alias: map[string]bool{}}
	if fd == nil {
		t.fail(nil, "function %s not found in %s", spec.goName, spec.file)
	}
	if fd.Type.TypeParams != nil {
		t.fail(fd, "generic function")
	}

	// the parameterisation table: type and root of every listed expression
	allFields := append([]kField(nil), spec.fields...)
	sliceElem := map[string]string{}
	sliceIsMap := map[string]bool{}
	for _, sl := range spec.slices {
		allFields = append(allFields, sl.kField)
		sliceElem[sl.expr] = sl.elem
		sliceIsMap[sl.expr] = sl.isMap
	}
	for _, f := range allFields {
		t.fields[f.expr] = &kFieldUse{f: f}
	}
	// parameters that are only handed on to callees: type and root are given by the table
	viaRoot := map[string]string{}
	for _, v := range spec.vias {
		if _, dup := t.fields[v.expr]; dup {
			t.fail(fd, "`%s` is listed twice in the parameterisation table", v.expr)
		}
		f := kField{v.expr, v.name}
		allFields = append(allFields, f)
		t.fields[v.expr] = &kFieldUse{f: f, ty: v.ty, used: true}
		viaRoot[v.expr] = strings.SplitN(v.expr, ".", 2)[0]
		if target, isAlias := spec.aliases[viaRoot[v.expr]]; isAlias {
			viaRoot[v.expr] = strings.SplitN(target, ".", 2)[0] // a read through the alias of a read through a parameter
		}
	}
	ast.Inspect(fd.Body, func(n ast.Node) bool {
		e, ok := n.(ast.Expr)
		if !ok {
			return true
		}
		if f := t.fieldMatch(e); f != nil && f.root == nil {
			f.root = rootIdent(e)
			if el, isSlice := sliceElem[f.f.expr]; isSlice {
				switch st := t.info.Types[e].Type.Underlying().(type) {
				case *types.Slice:
					if spec.state != nil && spec.state.slice == f.f.expr {
						t.elemGoType = st.Elem()
					}
					if sliceIsMap[f.f.expr] {
						t.fail(e, "parameterised map `%s` is a slice", f.f.expr)
					}
				case *types.Map:
					if !sliceIsMap[f.f.expr] {
						t.fail(e, "parameterised slice `%s` is a map", f.f.expr)
					}
				default:
					t.fail(e, "parameterised slice `%s` is not a slice", f.f.expr)
				}
				f.ty = kType{k: kList, elem: el}
				return false
			}
			f.ty = t.typeOf(t.info.Types[e].Type, e)
			if f.ty.k == kUntyped {
				t.fail(e, "parameterised expression `%s` is an untyped constant", f.f.expr)
			}
			return false
		}
		return true
	})
	if st := spec.state; st != nil {
		if fu := t.fields[st.slice]; fu != nil && fu.root == nil { // only handed on / returned
			fu.ty = kType{k: kList, elem: sliceElem[st.slice]}
			viaRoot[st.slice] = strings.SplitN(st.slice, ".", 2)[0]
		}
	}
	for _, f := range allFields {
		if t.fields[f.expr].root == nil && viaRoot[f.expr] == "" {
			t.fail(fd, "the parameterised expression `%s` does not occur in the function any more", f.expr)
		}
	}

	out := &kernelOut{spec: spec, plain: true}
	addParam := func(name string, ty kType) {
		out.params = append(out.params, "("+name+" : "+ty.lean()+")")
	}
	for _, p := range spec.extraParams {
		if _, clash := t.names[p.name]; clash {
			t.fail(fd, "parameter name %s used twice", p.name)
		}
		t.names[p.name] = p.ty
		t.scope = append(t.scope, p)
		addParam(p.name, p.ty)
		out.plain = false
	}
	var plist []*ast.Field
	if fd.Recv != nil {
		plist = append(plist, fd.Recv.List...)
	}
	plist = append(plist, fd.Type.Params.List...)
	placed := map[string]bool{}
	out.hasRecv = fd.Recv != nil
	callable := true
	pidx := -1
	for _, fl := range plist {
		if len(fl.Names) == 0 {
			out.plain = false
			pidx++
			continue
		}
		for _, id := range fl.Names {
			pidx++
			obj := t.info.Defs[id]
			if obj != nil && t.supported(obj.Type()) && id.Name != "_" {
				ty := t.typeOf(obj.Type(), id)
				addParam(t.declare(id, ty), ty)
				out.nparam++
				out.origins = append(out.origins, kOrigin{goParam: pidx})
				continue
			}
			// a receiver / pointer / struct parameter: replaced by the listed reads through it
			out.plain = false
			if lt, ok := t.sliceParam(obj, id); ok {
				addParam(t.declare(id, lt), lt)
				callable = false
				continue
			}
			for _, f := range allFields {
				fu := t.fields[f.expr]
				if (fu.root != nil && t.info.Uses[fu.root] == obj && obj != nil) || (fu.root == nil && viaRoot[f.expr] == id.Name) ||
					(fu.root != nil && t.aliasRoot(fu.root) == id.Name) {
					if spec.state != nil && spec.state.outOnly && f.expr == spec.state.slice {
						placed[f.expr] = true // an output only: not a parameter
						callable = false
						continue
					}
					if strings.HasPrefix(f.expr, id.Name+".") {
						out.origins = append(out.origins, kOrigin{goParam: -1, root: pidx, suffix: strings.TrimPrefix(f.expr, id.Name)})
					} else {
						callable = false
					}
					if _, clash := t.names[f.name]; clash {
						t.fail(id, "parameter name %s used twice", f.name)
					}
					t.names[f.name] = fu.ty
					t.scope = append(t.scope, kVar{f.name, fu.ty})
					addParam(f.name, fu.ty)
					placed[f.expr] = true
				}
			}
		}
	}
	for _, f := range allFields {
		if !placed[f.expr] {
			t.fail(fd, "the parameterised expression `%s` does not read through a parameter of the function", f.expr)
		}
	}
	if !callable {
		out.origins = nil
	}
	if (fd.Type.Results == nil || len(fd.Type.Results.List) == 0) && spec.state == nil {
		t.fail(fd, "function without result")
	}
	if fd.Type.Results == nil {
		fd.Type.Results = &ast.FieldList{}
	}
	for _, fl := range fd.Type.Results.List {
		if len(fl.Names) > 0 {
			t.fail(fl, "named results")
		}
		if spec.fluent && fd.Recv != nil && len(fd.Recv.List) == 1 &&
			types.Identical(t.info.Types[fl.Type].Type, t.info.Types[fd.Recv.List[0].Type].Type) {
			continue // the method returns its receiver (checked at every return): the state is the result
		}
		t.res = append(t.res, t.typeOf(t.info.Types[fl.Type].Type, fl))
	}
	out.res = t.res

	ir := t.block(fd.Body.List)
	if spec.state != nil {
		out.plain = false
		if len(t.res) == 0 && !terminates(ir) {
			t.fields[spec.state.slice].used = true
			ir = append(ir, kRet{t.stateTuple("")})
		}
	}
	if !terminates(ir) {
		t.fail(fd, "function body that does not end in a return on every path")
	}
	t.mayPanic = hasIndex(ir)
	if t.mayPanic {
		out.plain = false
	}
	out.mayPanic = t.mayPanic
	out.body = t.emit(ir, 1, func(int) string { panic(kErr{fd.Pos(), "missing return"}) })
	out.resTy, out.aux = t.resLean(), t.aux
	for _, f := range allFields {
		if !t.fields[f.expr].used {
			t.fail(fd, "the parameterised expression `%s` is not reached by the translation", f.expr)
		}
	}
	out.src = exprSrc(fd)
	if obj := t.info.Defs[fd.Name]; obj != nil {
		funcs[obj] = out
	}
	return out
}

// exprSrc prints the declaration as it stands in the source (for the comment above the def).
func exprSrc(fd *ast.FuncDecl) string {
	start, end := fset.Position(fd.Pos()), fset.Position(fd.End())
	data, err := os.ReadFile(start.Filename)
	if err != nil || end.Offset > len(data) {
		return ""
	}
	src := strings.ReplaceAll(string(data[start.Offset:end.Offset]), "-/", "- /")
	return strings.ReplaceAll(src, "/-", "/ -")
}

func writeKernels(outDir string, root, dbc *packages.Package) {
	path := filepath.Join(outDir, "Kernels.lean")
	os.Remove(path) // never keep a stale generated file
	var cur *kernelSpec
	defer func() {
		if r := recover(); r != nil {
			ke, ok := r.(kErr)
			if !ok {
				panic(r)
			}
			where := ""
			if ke.pos.IsValid() {
				ps := fset.Position(ke.pos)
				where = fmt.Sprintf("%s:%d: ", filepath.Base(ps.Filename), ps.Line)
			}
			fmt.Fprintf(os.Stderr, "extract/kernels: %skernel %s: unsupported by the translator: %s\n", where, cur.goName, ke.msg)
			os.Exit(1)
		}
	}()

	var b strings.Builder
	b.WriteString("/- GENERATED by /verif/tools/extract (kernels.go) from /repo — do not edit.\n")
	b.WriteString("   Go functions translated to Lean; proved equal to the hand-written model in\n")
	b.WriteString("   Acme/Proofs/GenKernels.lean.  Operator semantics: Acme/Core/GenPrelude.lean. -/\n")
	for _, im := range kernelImports {
		b.WriteString("import " + im + "\n")
	}
	b.WriteString("\nset_option linter.unusedVariables false\n\nnamespace Acme.Gen.K\n\n")
	head := b.String()
	b.Reset()
	funcs := map[types.Object]*kernelOut{}
	var names []string
	for i := range kernelSpecs {
		cur = &kernelSpecs[i]
		p := root
		if cur.pkg == "dbc" {
			p = dbc
		}
		k := translateKernel(cur, p, funcs)
		b.WriteString("/- " + cur.file + ", " + cur.goName + "   (hand model: " + cur.model + ")\n\n")
		b.WriteString(k.src + "\n-/\n")
		for _, a := range k.aux {
			b.WriteString(a)
		}
		b.WriteString("def " + cur.lean + " " + strings.Join(k.params, " ") + " : " + k.resTy + " :=\n")
		b.WriteString(k.body + "\n")
		names = append(names, "("+leanStr(cur.lean)+", "+leanStr(cur.file)+", "+leanStr(cur.goName)+")")
	}
	b.WriteString("/-- the translated kernels: (definition, file, Go function) -/\n")
	b.WriteString("def kernels : List (String × String × String) := [\n  " + strings.Join(names, ",\n  ") + "\n]\n\n")
	b.WriteString("end Acme.Gen.K\n")
	// the error sentinels that occur in the translated kernels
	var causes []string
	for c := range kCauses {
		causes = append(causes, c)
	}
	sort.Strings(causes)
	cause := "/-- the error sentinels (package-level `Err*` variables) returned by the translated kernels;\n" +
		"    a Go `error` result is `Option Cause`: `nil` ↦ `none`, `ErrX` or `&T{.., Err: ErrX}` ↦ `some .ErrX` -/\n" +
		"inductive Cause where\n"
	for _, c := range causes {
		cause += "  | " + c + "\n"
	}
	cause += "  deriving Repr, DecidableEq\n\n"
	if len(causes) == 0 {
		cause = ""
	}
	var ctypes []string
	for ct := range kCauseSets {
		ctypes = append(ctypes, ct)
	}
	sort.Strings(ctypes)
	for _, ct := range ctypes {
		var cs []string
		for c := range kCauseSets[ct] {
			cs = append(cs, c)
		}
		sort.Strings(cs)
		cause += "/-- the error causes (sentinels `Err*` and cause structs `Err*{Target}`) of the kernels that use `" + ct + "` -/\ninductive " + ct + " where\n"
		for _, c := range cs {
			cause += "  | " + c + "\n"
		}
		cause += "  deriving Repr, DecidableEq\n\n"
	}
	if err := os.WriteFile(path, []byte(head+cause+b.String()), 0o644); err != nil {
		panic(err)
	}
}
