// Functions, statements and loops of the exporter translator (see kernels_exporter.go).
package main

import (
	"fmt"
	"go/ast"
	"go/token"
	"go/types"
	"strings"
)

// ---------------------------------------------------------------- results

// readsAlias: the statement mentions a variable that aliases e.currDBCMsg
func (t *xptr) readsAlias(s ast.Stmt) bool {
	res := false
	ast.Inspect(s, func(n ast.Node) bool {
		if id, ok := n.(*ast.Ident); ok {
			if v := t.vars[t.info.Uses[id]]; v != nil && v.alias {
				res = true
			}
		}
		return true
	})
	return res
}

// isFile: the expression `e.dbcFile`
func (t *xptr) isFile(e ast.Expr) bool {
	s, ok := e.(*ast.SelectorExpr)
	if !ok || s.Sel.Name != "dbcFile" {
		return false
	}
	id, ok := s.X.(*ast.Ident)
	return ok && t.isRecv(id)
}

// resultNames: what the current function returns besides its Go results
func (t *xptr) extraResults() []string {
	var res []string
	for i, p := range xpParamObjs(t.info, t.cur.decl) {
		if t.cur.out[i] {
			res = append(res, t.vars[p].lean)
		}
	}
	if t.cur.writesSt {
		res = append(res, "st")
	}
	return res
}

func (t *xptr) wrap(mayPanic bool, v string) string {
	if mayPanic {
		return ".val " + v
	}
	return v
}

func (t *xptr) retLines(vals []string) []string {
	all := append(append([]string{}, vals...), t.extraResults()...)
	if len(all) == 0 {
		t.fail(t.cur.decl, "function %s has no result and writes nothing", t.curName)
	}
	return []string{t.wrap(t.cur.mayPanic, xpTuple(all))}
}

// bindCall: the lines that run `call` and bind its results to `names`
func (t *xptr) bindCall(call string, names []string, monadic bool) []string {
	if monadic {
		return []string{"bind (" + call + ") fun " + xpTuple(names) + " =>"}
	}
	if len(names) == 1 {
		return []string{"let " + names[0] + " := " + call}
	}
	lines := []string{"let r_ := " + call}
	for i, n := range names {
		proj := "r_"
		for j := 0; j < i; j++ {
			proj += ".2"
		}
		if i < len(names)-1 {
			proj += ".1"
		}
		lines = append(lines, "let "+n+" := "+proj)
	}
	return lines
}

// recvCallStmt: `[a, b :=] e.m(args)`
func (t *xptr) recvCallStmt(c *ast.CallExpr, lhs []ast.Expr, define bool) []string {
	m, _ := t.recvCall(c)
	g := t.sigs[m]
	if g == nil {
		t.fail(c, "method %s is not translated", m)
	}
	nres := 0
	if g.decl.Type.Results != nil {
		for _, f := range g.decl.Type.Results.List {
			if len(f.Names) == 0 {
				nres++
			} else {
				nres += len(f.Names)
			}
		}
	}
	if len(lhs) != nres && !(len(lhs) == 0 && nres == 0) {
		t.fail(c, "call of %s: %d results bound, it has %d", m, len(lhs), nres)
	}
	call := t.callText(m, c)
	var names []string
	for _, l := range lhs {
		id, ok := l.(*ast.Ident)
		if !ok {
			t.fail(l, "result bound to %s", exprStr(l))
		}
		if define && t.info.Defs[id] != nil {
			names = append(names, t.declare(id, "").lean)
		} else {
			names = append(names, t.varOf(id).lean)
		}
	}
	for j, a := range c.Args {
		if g.out[j] {
			names = append(names, t.varOf(a.(*ast.Ident)).lean)
		}
	}
	if g.writesSt {
		names = append(names, "st")
	}
	if len(names) == 0 {
		t.fail(c, "call of %s has no effect in the model", m)
	}
	return t.bindCall(call, names, g.mayPanic)
}

// ---------------------------------------------------------------- statements

// the aliasing flags are per control-flow path: every branch starts from the flags before the
// statement, what follows sees their union
type xpFlags map[*xpVar][2]bool

func (t *xptr) flags() xpFlags {
	f := xpFlags{}
	for _, v := range t.vars {
		f[v] = [2]bool{v.escaped, v.alias}
	}
	return f
}

func (t *xptr) setFlags(f xpFlags) {
	for v, x := range f {
		v.escaped, v.alias = x[0], x[1]
	}
}

func (t *xptr) joinFlags(a xpFlags) {
	for v, x := range a {
		v.escaped, v.alias = v.escaped || x[0], v.alias || x[1]
	}
}

func (t *xptr) block(list []ast.Stmt, lc *xpLoop, k xpK) []string {
	if len(list) == 0 {
		return k()
	}
	s := list[0]
	rest := func() []string { return t.block(list[1:], lc, k) }
	if t.sliced(s) {
		p := fset.Position(s.Pos())
		note := fmt.Sprintf("%s:%d  %s", xpSrcFile, p.Line, xpShort(exprStr(s)))
		seen := false
		for _, x := range t.skipped {
			if x == note {
				seen = true
			}
		}
		if !seen {
			t.skipped = append(t.skipped, note)
		}
		return rest()
	}
	// x := make([]T, len(l)); for i, v := range l { x[i] = E }
	if x, l, v, e, ok := t.mapIdiomAt(list, 0); ok {
		xv := t.declare(x, "")
		lt := t.expr(l)
		_, lk, _ := t.model(l)
		vv := t.declare(v, xpElemKind[lk])
		line := "let " + xv.lean + " := " + xpParenIf(lt) + ".map (fun " + vv.lean + " => " + t.expr(e) + ")"
		return append([]string{line}, t.block(list[2:], lc, k)...)
	}
	// x := make([]T, 0, len(m)); for _, v := range m { x = append(x, v) }; slices.SortFunc(x, cmp)
	if x, m, ok := t.sortedValuesAt(list, 0); ok {
		p, ok := t.recvPath(m)
		if !ok || t.cur.usesSort == "" || lc != nil {
			t.fail(s, "the sorted values of %s", exprStr(m))
		}
		xv := t.declare(x, "")
		line := "let " + xv.lean + " := sortEnums (mapValues " + p + ")"
		return append([]string{line}, t.block(list[3:], lc, k)...)
	}
	// the message e.currDBCMsg points to may be read as a value only when the walk of its signals is
	// over: as the last statement of the function (otherwise later appends to its Signals are lost)
	if t.readsAlias(s) {
		for _, r := range list[1:] {
			if !t.sliced(r) {
				t.fail(s, "the message that e.currDBCMsg points to is used before the end of the function (aliasing)")
			}
		}
		if lc != nil {
			t.fail(s, "the message that e.currDBCMsg points to is used inside a loop (aliasing)")
		}
	}
	switch x := s.(type) {
	case *ast.AssignStmt:
		return append(t.assign(x), rest()...)
	case *ast.ExprStmt:
		c, ok := x.X.(*ast.CallExpr)
		if !ok {
			t.fail(s, "expression statement")
		}
		if _, ok := t.recvCall(c); ok {
			return append(t.recvCallStmt(c, nil, false), rest()...)
		}
		t.fail(s, "call statement %s", exprStr(c.Fun))
	case *ast.ReturnStmt:
		if lc != nil {
			t.fail(s, "return inside a loop")
		}
		var vals []string
		for _, r := range x.Results {
			if t.isFile(r) { // `return e.dbcFile`: the file is the state
				continue
			}
			vals = append(vals, t.expr(r))
		}
		return t.retLines(vals)
	case *ast.BranchStmt:
		if x.Tok == token.CONTINUE && x.Label == nil && lc != nil {
			return lc.recur()
		}
		if x.Tok == token.BREAK && x.Label == nil && lc != nil && lc.done != nil {
			return lc.done() // the loop function answers the current values
		}
		t.fail(s, "%s", x.Tok)
	case *ast.IfStmt:
		return t.ifStmt(x, lc, rest)
	case *ast.SwitchStmt:
		if id, ok := x.Tag.(*ast.Ident); ok && x.Init == nil {
			if _, isEnum := t.enums[t.typeName(t.info.TypeOf(id))]; isEnum {
				return t.enumSwitch(x, id, lc, rest)
			}
		}
		return t.kindSwitch(x, lc, rest)
	case *ast.RangeStmt:
		return append(t.rangeLoop(x), rest()...)
	case *ast.ForStmt:
		return append(t.countedLoop(x), rest()...)
	}
	t.fail(s, "statement %T", s)
	return nil
}

func xpShort(s string) string {
	if len(s) > 90 {
		return s[:87] + "..."
	}
	return s
}

func xpParenIf(s string) string {
	if xpIsAtom(s) {
		return s
	}
	return "(" + s + ")"
}

func (t *xptr) ifStmt(x *ast.IfStmt, lc *xpLoop, rest xpK) []string {
	if x.Init != nil {
		// `if v, ok := m[k]; ok {` : the init statement first (its variables stay visible, harmless)
		as, ok := x.Init.(*ast.AssignStmt)
		if !ok || as.Tok != token.DEFINE {
			t.fail(x, "if with an init statement that is not a definition")
		}
		pre := t.assign(as)
		y := *x
		y.Init = nil
		return append(pre, t.ifStmt(&y, lc, rest)...)
	}
	var elseList []ast.Stmt
	if x.Else != nil {
		b, ok := x.Else.(*ast.BlockStmt)
		if !ok {
			t.fail(x.Else, "else if")
		}
		elseList = b.List
	}
	// `if v != nil` on a nilable model object ↦ match
	var optVar *xpVar
	if be, ok := x.Cond.(*ast.BinaryExpr); ok && be.Op == token.NEQ {
		if n, ok := be.Y.(*ast.Ident); ok && n.Name == "nil" {
			if id, ok := be.X.(*ast.Ident); ok {
				if v := t.vars[t.info.Uses[id]]; v != nil && strings.HasSuffix(v.kind, "?") && v.kind != "nil?" {
					optVar = t.varOf(id)
				}
			}
		}
	}
	all := append(append([]ast.Stmt{}, x.Body.List...), elseList...)
	if t.jumps(all) {
		if optVar != nil {
			t.fail(x, "a nil test with a jump inside")
		}
		lines := []string{"if " + t.cond(x.Cond) + " then"}
		before := t.flags()
		lines = append(lines, xpInd(t.block(x.Body.List, lc, rest))...)
		t.setFlags(before)
		lines = append(lines, "else")
		return append(lines, t.block(elseList, lc, rest)...)
	}
	objs := t.assigned(all, x.Pos())
	var names []string
	for _, o := range objs {
		names = append(names, t.vars[o].lean)
	}
	if t.facts(x).st {
		names = append(names, "st")
	}
	if len(names) == 0 {
		t.fail(x, "an if statement without an effect in the model")
	}
	tuple := func() []string { return []string{xpTuple(names)} }
	var lines []string
	before := t.flags()
	var afterThen xpFlags
	if optVar != nil {
		kind := optVar.kind
		lines = append(lines, "let "+xpTuple(names)+" :=", "  match "+optVar.lean+" with", "  | some "+optVar.lean+" =>")
		optVar.kind = strings.TrimSuffix(kind, "?")
		lines = append(lines, xpInd(xpInd(t.block(x.Body.List, lc, tuple)))...)
		optVar.kind = kind
		afterThen = t.flags()
		t.setFlags(before)
		if len(elseList) == 0 {
			lines = append(lines, "  | none => "+xpTuple(names))
		} else {
			lines = append(lines, "  | none =>")
			lines = append(lines, xpInd(xpInd(t.block(elseList, lc, tuple)))...)
		}
	} else {
		lines = append(lines, "let "+xpTuple(names)+" :=", "  if "+t.cond(x.Cond)+" then")
		lines = append(lines, xpInd(xpInd(t.block(x.Body.List, lc, tuple)))...)
		afterThen = t.flags()
		t.setFlags(before)
		if len(elseList) == 0 {
			lines = append(lines, "  else "+xpTuple(names))
		} else {
			lines = append(lines, "  else")
			lines = append(lines, xpInd(xpInd(t.block(elseList, lc, tuple)))...)
		}
	}
	t.joinFlags(afterThen)
	return append(lines, rest()...)
}

// switch s.Kind() { case SignalKindK: v, err := s.ToK(); if err != nil { panic(err) }; .. }
func (t *xptr) kindSwitch(x *ast.SwitchStmt, lc *xpLoop, rest xpK) []string {
	if x.Init != nil || x.Tag == nil {
		t.fail(x, "switch without a tag / with an init statement")
	}
	tag, ok := x.Tag.(*ast.CallExpr)
	if !ok {
		t.fail(x, "switch on %s (only on the Kind() of a signal / the Type() of an attribute / an enum variable)", exprStr(x.Tag))
	}
	sel, ok := tag.Fun.(*ast.SelectorExpr)
	if !ok {
		t.fail(x, "switch on %s", exprStr(x.Tag))
	}
	subj, ok2 := sel.X.(*ast.Ident)
	if !ok2 {
		t.fail(x, "switch on %s", exprStr(x.Tag))
	}
	table, all, optional := xpKinds, []string{"SignalKindStandard", "SignalKindEnum", "SignalKindMultiplexer"}, false
	switch {
	case sel.Sel.Name == "Kind" && t.varOf(subj).kind == "Sig":
	case sel.Sel.Name == "Type" && t.varOf(subj).kind == "Attr":
		// a case of an attribute switch may do without the conversion (it then reads the attribute only
		// through the interface)
		table, all, optional = xpAttrKinds, []string{"AttributeTypeString", "AttributeTypeInteger", "AttributeTypeFloat", "AttributeTypeEnum"}, true
	default:
		t.fail(x, "switch on %s (only on the Kind() of a signal / the Type() of an attribute variable)", exprStr(x.Tag))
	}
	lines := []string{"match " + t.varOf(subj).lean + " with"}
	done := map[string]bool{}
	before := t.flags()
	for _, cc := range x.Body.List {
		t.setFlags(before)
		c := cc.(*ast.CaseClause)
		if len(c.List) != 1 {
			t.fail(c, "default / multi-valued case")
		}
		id, ok := c.List[0].(*ast.Ident)
		if !ok || table[id.Name][0] == "" || done[id.Name] {
			t.fail(c, "case %s", exprStr(c.List[0]))
		}
		kd := table[id.Name]
		done[id.Name] = true
		converts := false
		if len(c.Body) >= 1 {
			if as, ok := c.Body[0].(*ast.AssignStmt); ok && len(as.Rhs) == 1 && strings.HasPrefix(exprStr(as.Rhs[0]), subj.Name+".To") {
				converts = true
			}
		}
		if !converts {
			if !optional {
				t.fail(c, "case %s does not start with the conversion %s()", id.Name, kd[0])
			}
			pat := "| ." + kd[1] + " _"
			lines = append(lines, pat+" =>")
			lines = append(lines, xpInd(t.block(c.Body, lc, rest))...)
			continue
		}
		if len(c.Body) < 2 {
			t.fail(c, "case %s does not start with the conversion %s()", id.Name, kd[0])
		}
		as, ok := c.Body[0].(*ast.AssignStmt)
		if !ok || as.Tok != token.DEFINE || len(as.Lhs) != 2 || len(as.Rhs) != 1 ||
			exprStr(as.Rhs[0]) != subj.Name+"."+kd[0]+"()" {
			t.fail(c.Body[0], "case %s must start with `v, err := %s.%s()`", id.Name, subj.Name, kd[0])
		}
		errId := as.Lhs[1].(*ast.Ident)
		chk, ok := c.Body[1].(*ast.IfStmt)
		if !ok || exprStr(chk.Cond) != errId.Name+" != nil" || chk.Else != nil || len(chk.Body.List) != 1 ||
			exprStr(chk.Body.List[0]) != "panic("+errId.Name+")" {
			t.fail(c.Body[1], "the conversion must be followed by `if err != nil { panic(err) }`")
		}
		v := t.declare(as.Lhs[0].(*ast.Ident), kd[2])
		pat := "| ." + kd[1] + " " + v.lean
		if kd[2] == "MuxSig" {
			pat += " " + v.lean + "_groups"
		}
		lines = append(lines, pat+" =>")
		lines = append(lines, xpInd(t.block(c.Body[2:], lc, rest))...)
	}
	for _, k := range all {
		if !done[k] {
			pat := "| ." + table[k][1] + " _"
			if table[k][2] == "MuxSig" {
				pat += " _"
			}
			lines = append(lines, pat+" =>")
			lines = append(lines, xpInd(rest())...)
		}
	}
	return lines
}

// switch v { case C: .. } on a variable of an enum type, without jumps: the assigned variables as a tuple
func (t *xptr) enumSwitch(x *ast.SwitchStmt, tag *ast.Ident, lc *xpLoop, rest xpK) []string {
	en := t.enums[t.typeName(t.info.TypeOf(tag))]
	var all []ast.Stmt
	for _, cc := range x.Body.List {
		all = append(all, cc.(*ast.CaseClause).Body...)
	}
	if t.jumps(all) {
		t.fail(x, "a switch on an enum variable with a jump / a possible panic inside")
	}
	var names []string
	for _, o := range t.assigned(all, x.Pos()) {
		names = append(names, t.vars[o].lean)
	}
	if t.facts(x).st {
		names = append(names, "st")
	}
	if len(names) == 0 {
		t.fail(x, "a switch without an effect in the model")
	}
	tuple := func() []string { return []string{xpTuple(names)} }
	lines := []string{"let " + xpTuple(names) + " :=", "  match " + t.varOf(tag).lean + " with"}
	before := t.flags()
	after := t.flags()
	done := map[string]bool{}
	for _, cc := range x.Body.List {
		c := cc.(*ast.CaseClause)
		if len(c.List) != 1 {
			t.fail(c, "default / multi-valued case")
		}
		cn := ""
		switch e := c.List[0].(type) {
		case *ast.Ident:
			cn = e.Name
		case *ast.SelectorExpr:
			cn = e.Sel.Name
		}
		ctor, ok := en.consts[cn]
		if !ok || done[cn] {
			t.fail(c, "case %s", exprStr(c.List[0]))
		}
		done[cn] = true
		t.setFlags(before)
		lines = append(lines, "  | "+en.lean+"."+ctor+" =>")
		lines = append(lines, xpInd(xpInd(t.block(c.Body, lc, tuple)))...)
		for v, f := range t.flags() {
			o := after[v]
			after[v] = [2]bool{o[0] || f[0], o[1] || f[1]}
		}
	}
	if len(done) < len(en.consts) {
		lines = append(lines, "  | _ => "+xpTuple(names))
	}
	t.setFlags(after)
	return append(lines, rest()...)
}

// assign: type assertions `v.(T)` of the right-hand side are evaluated first (they can panic)
func (t *xptr) assign(x *ast.AssignStmt) []string {
	var pre []string
	for _, r := range x.Rhs {
		ast.Inspect(r, func(n ast.Node) bool {
			ta, ok := n.(*ast.TypeAssertExpr)
			if !ok {
				return true
			}
			if len(pre) > 0 || ta.Type == nil {
				t.fail(ta, "more than one type assertion in a statement / a type switch")
			}
			l, k, ok := t.model(ta.X)
			if !ok || k != "AnyVal" {
				t.fail(ta, "type assertion on %s", exprStr(ta.X))
			}
			fn := map[string]string{"string": "asStr", "int": "asInt", "float64": "asFloat"}[t.typeName(t.info.TypeOf(ta.Type))]
			if fn == "" {
				t.fail(ta, "type assertion to %s", exprStr(ta.Type))
			}
			if t.hoisted == nil {
				t.hoisted = map[*ast.TypeAssertExpr]string{}
			}
			t.hoisted[ta] = "v_"
			pre = append(pre, "bind ("+fn+" "+l+") fun v_ =>")
			return false
		})
	}
	return append(pre, t.assign0(x)...)
}

func (t *xptr) assign0(x *ast.AssignStmt) []string {
	if x.Tok != token.DEFINE && x.Tok != token.ASSIGN {
		t.fail(x, "assignment operator %s", x.Tok)
	}
	define := x.Tok == token.DEFINE
	if len(x.Rhs) != 1 {
		t.fail(x, "parallel assignment")
	}
	rhs := x.Rhs[0]
	if c, ok := rhs.(*ast.CallExpr); ok {
		allIdents := true
		for _, l := range x.Lhs {
			if _, ok := l.(*ast.Ident); !ok {
				allIdents = false
			}
		}
		if m, ok := t.recvCall(c); ok && allIdents {
			g := t.sigs[m]
			if g != nil && !(len(x.Lhs) == 1 && !g.mayPanic && !g.writesSt && len(g.out) == 0) {
				return t.recvCallStmt(c, x.Lhs, define)
			}
		}
	}
	bindName := func(l ast.Expr, kind string) string {
		id, ok := l.(*ast.Ident)
		if !ok {
			t.fail(l, "assignment to %s", exprStr(l))
		}
		if id.Name == "_" {
			if len(x.Lhs) == 2 {
				return "_"
			}
			t.fail(l, "blank identifier")
		}
		if define && t.info.Defs[id] != nil {
			return t.declare(id, kind).lean
		}
		v := t.varOf(id)
		if v.kind != "" || t.dbcStruct(t.info.TypeOf(id)) != nil {
			t.fail(l, "re-assignment of the object variable %s", id.Name)
		}
		return v.lean
	}
	if len(x.Lhs) == 2 {
		ix, ok := rhs.(*ast.IndexExpr)
		if !ok {
			t.fail(x, "two-valued assignment from %s", exprStr(rhs))
		}
		m, ok := types.Unalias(t.info.TypeOf(ix.X)).Underlying().(*types.Map)
		if !ok {
			t.fail(x, "two-valued index of a non-map")
		}
		call := "mapGet2 " + t.atom(ix.X) + " " + t.atom(ix.Index) + " " + t.zero(m.Elem(), x)
		a, b := bindName(x.Lhs[0], ""), bindName(x.Lhs[1], "")
		return t.bindCall(call, []string{a, b}, false)
	}
	if len(x.Lhs) != 1 {
		t.fail(x, "assignment with %d left-hand sides", len(x.Lhs))
	}
	lhs := x.Lhs[0]
	switch l := lhs.(type) {
	case *ast.Ident:
		// x := s[i]
		if ix, ok := rhs.(*ast.IndexExpr); ok {
			if _, ok := types.Unalias(t.info.TypeOf(ix.X)).Underlying().(*types.Slice); ok {
				call := "idx " + t.atom(ix.X) + " " + t.atom(ix.Index)
				return t.bindCall(call, []string{bindName(lhs, "")}, true)
			}
		}
		// x := new(dbc.T) / make(map) / []T{}
		typed := ""
		val := ""
		if c, ok := rhs.(*ast.CallExpr); ok {
			if id, ok := c.Fun.(*ast.Ident); ok {
				if _, isB := t.info.Uses[id].(*types.Builtin); isB {
					switch id.Name {
					case "new":
						if t.dbcStruct(t.info.TypeOf(rhs)) == nil {
							t.fail(rhs, "new of %s", exprStr(c.Args[0]))
						}
						typed, val = t.leanType(t.info.TypeOf(rhs), rhs), "{}"
					case "make":
						if _, ok := types.Unalias(t.info.TypeOf(rhs)).Underlying().(*types.Map); !ok || len(c.Args) != 1 {
							t.fail(rhs, "make of %s", exprStr(c.Args[0]))
						}
						typed, val = t.leanType(t.info.TypeOf(rhs), rhs), "[]"
					}
				}
			}
		}
		if cl, ok := rhs.(*ast.CompositeLit); ok && len(cl.Elts) == 0 {
			if _, ok := types.Unalias(t.info.TypeOf(rhs)).Underlying().(*types.Slice); ok {
				typed, val = t.leanType(t.info.TypeOf(rhs), rhs), "[]"
			}
		}
		if typed != "" {
			if !define {
				t.fail(x, "a fresh object assigned to an existing variable")
			}
			return []string{"let " + bindName(lhs, "") + " : " + typed + " := " + val}
		}
		_, kind, _ := t.model(rhs)
		if kind == "nil?" {
			t.fail(rhs, "a nilable reference used as a value")
		}
		v := t.expr(rhs)
		return []string{"let " + bindName(lhs, kind) + " := " + v}
	case *ast.IndexExpr:
		if _, ok := types.Unalias(t.info.TypeOf(l.X)).Underlying().(*types.Map); !ok {
			t.fail(x, "assignment to an element of a slice")
		}
		if p, ok := t.recvPath(l.X); ok {
			f := strings.TrimPrefix(p, "st.")
			return []string{"let st := { st with " + f + " := mapSet " + p + " " + t.atom(l.Index) + " " + t.atom(rhs) + " }"}
		}
		id, ok := l.X.(*ast.Ident)
		if !ok {
			t.fail(x, "assignment to %s", exprStr(lhs))
		}
		v := t.varOf(id)
		return []string{"let " + v.lean + " := mapSet " + v.lean + " " + t.atom(l.Index) + " " + t.atom(rhs)}
	case *ast.SelectorExpr:
		// e.currDBCMsg = m
		if id, ok := l.X.(*ast.Ident); ok && t.isRecv(id) {
			if l.Sel.Name != "currDBCMsg" {
				t.fail(x, "assignment to e.%s", l.Sel.Name)
			}
			mid, ok := rhs.(*ast.Ident)
			if !ok {
				t.fail(x, "e.currDBCMsg is assigned something that is not a variable")
			}
			v := t.varOf(mid)
			if v.alias || v.escaped {
				t.fail(x, "%s already aliases an output", mid.Name)
			}
			line := "let st := { st with curSignals := " + v.lean + ".signals }"
			v.alias = true
			return []string{line}
		}
		// e.dbcFile.Nodes = p
		if t.isFile(l.X) {
			if f, ok := xpFilePtrFields[l.Sel.Name]; ok {
				id, ok := rhs.(*ast.Ident)
				if !ok || t.dbcStruct(t.info.TypeOf(id)) == nil {
					t.fail(x, "e.dbcFile.%s is assigned something that is not a variable", l.Sel.Name)
				}
				v := t.varOf(id)
				line := "let st := { st with " + f + " := some " + v.lean + " }"
				v.escaped = true
				return []string{line}
			}
		}
		// e.dbcFile.X = append(e.dbcFile.X, v) / e.currDBCMsg.Signals = append(..)
		if p, ok := t.recvPath(l); ok {
			c, ok := rhs.(*ast.CallExpr)
			if !ok || len(c.Args) < 2 || exprStr(c.Fun) != "append" || exprStr(c.Args[0]) != exprStr(lhs) {
				t.fail(x, "%s may only be appended to", exprStr(lhs))
			}
			return []string{"let st := { st with " + strings.TrimPrefix(p, "st.") + " := " + t.expr(rhs) + " }"}
		}
		// e.currDBCMsg.Signals[len(e.currDBCMsg.Signals)-1].F = v
		if ix, ok := l.X.(*ast.IndexExpr); ok {
			p, ok := t.recvPath(ix.X)
			s := t.dbcStruct(t.info.TypeOf(ix))
			if !ok || s == nil {
				t.fail(x, "assignment through %s", exprStr(l.X))
			}
			f, ok := s.fields[l.Sel.Name]
			if !ok {
				t.fail(x, "field %s is not in the translator's table", l.Sel.Name)
			}
			for _, v := range t.vars {
				if v.escaped {
					v.escaped = true
				}
			}
			call := "modifyAt " + p + " " + t.atom(ix.Index) + " (fun x_ => { x_ with " + f + " := " + t.expr(rhs) + " })"
			return []string{"bind (" + call + ") fun l_ =>", "let st := { st with " + strings.TrimPrefix(p, "st.") + " := l_ }"}
		}
		// p.F = v
		if id, ok := l.X.(*ast.Ident); ok {
			if s := t.dbcStruct(t.info.TypeOf(id)); s != nil {
				f, ok := s.fields[l.Sel.Name]
				if !ok {
					t.fail(x, "field %s is not in the translator's table", l.Sel.Name)
				}
				v := t.varOf(id)
				if v.escaped || v.alias {
					t.fail(x, "%s was appended to an output list and is written afterwards (aliasing)", id.Name)
				}
				return []string{"let " + v.lean + " := { " + v.lean + " with " + f + " := " + t.expr(rhs) + " }"}
			}
		}
	}
	t.fail(x, "assignment to %s", exprStr(lhs))
	return nil
}

// ---------------------------------------------------------------- loops

type xpLoopSig struct {
	name    string
	params  []string // "(x : T)"
	args    []string // at the call site
	results []string // names
	rtypes  []string
	monadic bool
}

// loopFrame: the parameters of a loop function: context (free, not assigned), then the assigned ones
func (t *xptr) loopFrame(node ast.Node, body *ast.BlockStmt, extra ast.Node, own map[types.Object]bool) (ctx, asg []types.Object, f xpFacts) {
	f = t.facts(body)
	asg = t.assigned(body.List, node.Pos())
	isAsg := map[types.Object]bool{}
	for _, o := range asg {
		isAsg[o] = true
	}
	seen := map[types.Object]bool{}
	for _, n := range []ast.Node{body, extra} {
		if n == nil {
			continue
		}
		for _, o := range t.free(n, node.Pos()) {
			if !isAsg[o] && !own[o] && !seen[o] {
				seen[o] = true
				ctx = append(ctx, o)
			}
		}
	}
	return
}

func (t *xptr) param(o types.Object, body ast.Node, at ast.Node) (decl []string, arg []string) {
	v := t.vars[o]
	decl = append(decl, "("+v.lean+" : "+t.varType(o, at)+")")
	arg = append(arg, v.lean)
	if v.kind == "MuxSig" && t.usesGroups(body, o) {
		decl = append(decl, "("+v.lean+"_groups : List (List Sig))")
		arg = append(arg, v.lean+"_groups")
	}
	return
}

func (t *xptr) loopNo(n ast.Node) int {
	i := 0
	res := 0
	ast.Inspect(t.cur.decl.Body, func(x ast.Node) bool {
		if st, ok := x.(ast.Stmt); ok {
			if _, isBlock := st.(*ast.BlockStmt); !isBlock && t.sliced(st) {
				return false // the skipped attribute loops are not numbered
			}
		}
		switch x.(type) {
		case *ast.RangeStmt, *ast.ForStmt:
			i++
			if x == n {
				res = i
			}
		}
		return true
	})
	return res
}

func (t *xptr) addUnit(u *xpUnit) {
	for _, old := range t.units {
		if old.name == u.name {
			if old.text != u.text {
				t.fail(nil, "internal: two different translations of %s", u.name)
			}
			return
		}
	}
	t.units = append(t.units, u)
}

func (t *xptr) rangeLoop(x *ast.RangeStmt) []string {
	if _, ok := types.Unalias(t.info.TypeOf(x.X)).Underlying().(*types.Slice); !ok {
		t.fail(x, "range over %s (only slices; a map has no iteration order)", t.info.TypeOf(x.X))
	}
	if x.Tok != token.DEFINE {
		t.fail(x, "range without :=")
	}
	name := fmt.Sprintf("%s_loop%d", t.curName, t.loopNo(x))
	lx, lk, isModel := t.model(x.X)
	if !isModel {
		lx = t.expr(x.X)
	}
	// the loop's own variables
	own := map[types.Object]bool{}
	var keyVar, valVar *xpVar
	if id, ok := x.Key.(*ast.Ident); ok && id.Name != "_" {
		keyVar = t.declare(id, "")
		own[t.info.Defs[id]] = true
	}
	elemType := ""
	if id, ok := x.Value.(*ast.Ident); ok && id.Name != "_" {
		valVar = t.declare(id, xpElemKind[lk])
		own[t.info.Defs[id]] = true
		elemType = t.varType(t.info.Defs[id], x)
	} else {
		t.fail(x, "range without a value variable")
	}
	ctx, asg, f := t.loopFrame(x, x.Body, nil, own)
	var params, args, results, rtypes []string
	if f.clr {
		params, args = append(params, "(clr : String → String)"), append(args, "clr")
	}
	if f.pm {
		params = append(params, "(pm : ParentMsg)")
		if t.msgPar != "" {
			args = append(args, t.msgPar+".parent")
		} else {
			args = append(args, "pm")
		}
	}
	for _, o := range ctx {
		d, a := t.param(o, x.Body, x)
		params, args = append(params, d...), append(args, a...)
	}
	params, args = append(params, "(rest_ : List "+xpParen(elemType)+")"), append(args, xpParenIf(lx))
	if keyVar != nil {
		params, args = append(params, "("+keyVar.lean+" : Int)"), append(args, "0")
	}
	for _, o := range asg {
		d, a := t.param(o, x.Body, x)
		params, args = append(params, d...), append(args, a...)
		results = append(results, t.vars[o].lean)
		rtypes = append(rtypes, t.varType(o, x))
	}
	if f.st {
		params, args = append(params, "(st : St)"), append(args, "st")
		results, rtypes = append(results, "st"), append(rtypes, "St")
	}
	if len(results) == 0 {
		t.fail(x, "a loop without an effect in the model")
	}
	rt := strings.Join(rtypes, " × ")
	if f.panics {
		rt = "Res " + xpParen(rt)
	}
	// inside the loop function `pm` is a parameter of its own
	savedMsg, savedCalls := t.msgPar, t.calls
	t.msgPar, t.calls = "", map[string]bool{}
	recArgs := func(next bool) string {
		var a []string
		if f.clr {
			a = append(a, "clr")
		}
		if f.pm {
			a = append(a, "pm")
		}
		for _, o := range ctx {
			_, aa := t.param(o, x.Body, x)
			a = append(a, aa...)
		}
		a = append(a, "rest_")
		if keyVar != nil {
			a = append(a, "("+keyVar.lean+" + 1)")
		}
		for _, o := range asg {
			_, aa := t.param(o, x.Body, x)
			a = append(a, aa...)
		}
		if f.st {
			a = append(a, "st")
		}
		return name + " " + strings.Join(a, " ")
	}
	// the body returns through the loop function, not through the enclosing Go function
	done := xpTuple(results)
	if f.panics {
		done = ".val " + done
	}
	lc := &xpLoop{recur: func() []string { return []string{recArgs(true)} }, done: func() []string { return []string{done} }}
	body := t.block(x.Body.List, lc, lc.recur)
	lines := []string{"def " + name + " " + strings.Join(params, " ") + " : " + rt + " :=",
		"  match rest_ with", "  | [] => " + done, "  | " + valVar.lean + " :: rest_ =>"}
	for _, l := range body {
		lines = append(lines, "    "+l)
	}
	u := &xpUnit{name: name, text: strings.Join(lines, "\n"), calls: t.calls, term: "(sizeOf rest_, 0)"}
	t.msgPar, t.calls = savedMsg, savedCalls
	t.calls[name] = true
	t.addUnit(u)
	return t.bindCall(name+" "+strings.Join(args, " "), results, f.panics)
}

// for i := a; i < b; i++ { .. }
func (t *xptr) countedLoop(x *ast.ForStmt) []string {
	init, ok := x.Init.(*ast.AssignStmt)
	if !ok || init.Tok != token.DEFINE || len(init.Lhs) != 1 || len(init.Rhs) != 1 {
		t.fail(x, "for statement: the init statement must be `i := a`")
	}
	iv := init.Lhs[0].(*ast.Ident)
	cond, ok := x.Cond.(*ast.BinaryExpr)
	if !ok || cond.Op != token.LSS || exprStr(cond.X) != iv.Name {
		t.fail(x, "for statement: the condition must be `i < b`")
	}
	post, ok := x.Post.(*ast.IncDecStmt)
	if !ok || post.Tok != token.INC || exprStr(post.X) != iv.Name {
		t.fail(x, "for statement: the post statement must be `i++`")
	}
	name := fmt.Sprintf("%s_loop%d", t.curName, t.loopNo(x))
	start := t.expr(init.Rhs[0])
	ivar := t.declare(iv, "")
	iobj := t.info.Defs[iv]
	own := map[types.Object]bool{iobj: true}
	ctx, asg, f := t.loopFrame(x, x.Body, cond.Y, own)
	for _, o := range asg {
		if o == iobj {
			t.fail(x, "the loop variable is assigned in the body")
		}
		for _, b := range t.free(cond.Y, x.Pos()) {
			if b == o {
				t.fail(x, "the bound of the loop changes in the body")
			}
		}
	}
	if f.st || f.pm || f.clr {
		t.fail(x, "a counted loop that writes the exporter / reads the parent message / clears names")
	}
	var params, args, results, rtypes, rec []string
	for _, o := range ctx {
		d, a := t.param(o, x.Body, x)
		params, args, rec = append(params, d...), append(args, a...), append(rec, a...)
	}
	params, args = append(params, "("+ivar.lean+" : Int)"), append(args, xpParenIf(start))
	rec = append(rec, "("+ivar.lean+" + 1)")
	for _, o := range asg {
		d, a := t.param(o, x.Body, x)
		params, args, rec = append(params, d...), append(args, a...), append(rec, a...)
		results = append(results, t.vars[o].lean)
		rtypes = append(rtypes, t.varType(o, x))
	}
	if len(results) == 0 {
		t.fail(x, "a loop without an effect in the model")
	}
	rt := strings.Join(rtypes, " × ")
	if f.panics {
		rt = "Res " + xpParen(rt)
	}
	savedCalls := t.calls
	t.calls = map[string]bool{}
	lc := &xpLoop{recur: func() []string { return []string{name + " " + strings.Join(rec, " ")} }}
	body := t.block(x.Body.List, lc, lc.recur)
	done := xpTuple(results)
	if f.panics {
		done = ".val " + done
	}
	bound := t.expr(cond.Y)
	lines := []string{"def " + name + " " + strings.Join(params, " ") + " : " + rt + " :=",
		"  if h_ : (" + ivar.lean + " < " + bound + ") then"}
	for _, l := range body {
		lines = append(lines, "    "+l)
	}
	lines = append(lines, "  else "+done)
	wf := "termination_by ((" + bound + ") - " + ivar.lean + ").toNat\ndecreasing_by all_goals (simp_wf; omega)"
	u := &xpUnit{name: name, text: strings.Join(lines, "\n"), calls: t.calls, wf: wf}
	t.calls = savedCalls
	t.calls[name] = true
	t.addUnit(u)
	return t.bindCall(name+" "+strings.Join(args, " "), results, f.panics)
}

// ---------------------------------------------------------------- functions

func (t *xptr) function(n string) {
	s := t.sigs[n]
	t.cur, t.curName = s, n
	t.vars, t.taint, t.calls, t.msgPar = map[types.Object]*xpVar{}, map[types.Object]bool{}, map[string]bool{}, ""
	fd := s.decl
	var params []string
	term := ""
	if s.usesClr {
		params = append(params, "(clr : String → String)")
	}
	if s.usesSort != "" {
		params = append(params, "(sortEnums : List "+xpParen(s.usesSort)+" → List "+xpParen(s.usesSort)+")")
	}
	hasMsg := false
	for _, f := range fd.Type.Params.List {
		if t.typeName(t.info.TypeOf(f.Type)) == "*Message" {
			hasMsg = true
		}
	}
	if s.usesPm && !hasMsg {
		params = append(params, "(pm : ParentMsg)")
	}
	for _, f := range fd.Type.Params.List {
		for _, id := range f.Names {
			v := t.declare(id, "")
			params = append(params, "("+v.lean+" : "+t.varType(t.info.Defs[id], id)+")")
			switch v.kind {
			case "MuxSig":
				params = append(params, "("+v.lean+"_groups : List (List Sig))")
				term = "(sizeOf " + v.lean + "_groups, 1)"
			case "Sig":
				term = "(sizeOf " + v.lean + ", 1)"
			case "Msg":
				t.msgPar = v.lean
			}
		}
	}
	if s.writesSt {
		params = append(params, "(st : St)")
	}
	var rtypes []string
	if fd.Type.Results != nil {
		for _, f := range fd.Type.Results.List {
			k := len(f.Names)
			if k == 0 {
				k = 1
			}
			for i := 0; i < k; i++ {
				if t.typeName(t.info.TypeOf(f.Type)) == "*dbc.File" {
					continue // the file is the state
				}
				rtypes = append(rtypes, t.leanType(t.info.TypeOf(f.Type), f))
			}
		}
	}
	for i, p := range xpParamObjs(t.info, fd) {
		if s.out[i] {
			rtypes = append(rtypes, t.varType(p, fd))
		}
	}
	if s.writesSt {
		rtypes = append(rtypes, "St")
	}
	if len(rtypes) == 0 {
		t.fail(fd, "function %s has no result and writes nothing", n)
	}
	rt := strings.Join(rtypes, " × ")
	if s.mayPanic {
		rt = "Res " + xpParen(rt)
	}
	body := t.block(fd.Body.List, nil, func() []string { return t.retLines(nil) })
	a, b := fset.Position(fd.Pos()).Offset, fset.Position(fd.End()).Offset
	lines := []string{"/- " + xpSrcFile + "\n\n" + strings.ReplaceAll(string(t.src[a:b]), "-/", "- /") + "\n-/",
		"def " + n + " " + strings.Join(params, " ") + " : " + rt + " :="}
	lines = append(lines, xpInd(body)...)
	t.addUnit(&xpUnit{name: n, text: strings.Join(lines, "\n"), calls: t.calls, term: term})
}

// ---------------------------------------------------------------- output

func (t *xptr) assemble() string {
	byName := map[string]*xpUnit{}
	for _, u := range t.units {
		byName[u.name] = u
	}
	// Tarjan: the strongly connected components come out callees first
	index, low, onStack := map[string]int{}, map[string]int{}, map[string]bool{}
	var stack []string
	var comps [][]string
	next := 0
	var strong func(v string)
	strong = func(v string) {
		next++
		index[v], low[v] = next, next
		stack = append(stack, v)
		onStack[v] = true
		var cs []string
		for c := range byName[v].calls {
			if byName[c] != nil {
				cs = append(cs, c)
			}
		}
		xpSortStrings(cs)
		for _, w := range cs {
			if index[w] == 0 {
				strong(w)
				if low[w] < low[v] {
					low[v] = low[w]
				}
			} else if onStack[w] && index[w] < low[v] {
				low[v] = index[w]
			}
		}
		if low[v] == index[v] {
			var comp []string
			for {
				w := stack[len(stack)-1]
				stack = stack[:len(stack)-1]
				onStack[w] = false
				comp = append(comp, w)
				if w == v {
					break
				}
			}
			comps = append(comps, comp)
		}
	}
	for _, u := range t.units {
		if index[u.name] == 0 {
			strong(u.name)
		}
	}
	var b strings.Builder
	b.WriteString("/- GENERATED by tools/extract (kernels_exporter.go) from " + xpSrcFile + " - do not edit.\n\n")
	b.WriteString("The exporting walk of exporter.go, translated statement by statement (conventions: the header of\n")
	b.WriteString("tools/extract/kernels_exporter.go and Acme/Core/GenExporterPrelude.lean).\n\n")
	b.WriteString("NOT translated in this stage (the attribute statements; they write nothing the translated code reads):\n")
	for _, s := range t.skipped {
		b.WriteString("  " + strings.ReplaceAll(s, "-/", "- /") + "\n")
	}
	b.WriteString("-/\nimport Acme.Core.GenExporterPrelude\n\nset_option linter.unusedVariables false\n\n")
	b.WriteString("namespace Acme.Gen.X\nopen Acme.XSem Acme.GoSem\n\n")
	order := map[string]int{}
	for i, u := range t.units {
		order[u.name] = i
	}
	for _, comp := range comps {
		xpSortBy(comp, order)
		if len(comp) == 1 {
			u := byName[comp[0]]
			b.WriteString(u.text + "\n")
			if u.wf != "" {
				b.WriteString(u.wf + "\n")
			}
			b.WriteString("\n")
			continue
		}
		b.WriteString("mutual\n\n")
		for _, n := range comp {
			u := byName[n]
			if u.term == "" || u.wf != "" {
				t.fail(nil, "%s is part of a recursion the translator has no measure for", n)
			}
			b.WriteString(u.text + "\ntermination_by " + u.term + "\n\n")
		}
		b.WriteString("end\n\n")
	}
	b.WriteString("end Acme.Gen.X\n")
	return b.String()
}

func xpSortStrings(s []string) {
	for i := 1; i < len(s); i++ {
		for j := i; j > 0 && s[j] < s[j-1]; j-- {
			s[j], s[j-1] = s[j-1], s[j]
		}
	}
}

func xpSortBy(s []string, order map[string]int) {
	for i := 1; i < len(s); i++ {
		for j := i; j > 0 && order[s[j]] < order[s[j-1]]; j-- {
			s[j], s[j-1] = s[j-1], s[j]
		}
	}
}
