// DbcWriter.lean: every function of /repo/dbc/writer.go translated from the CURRENT source
// (go/ast + go/types) into Lean on every run ("translator, eleventh stage", C08).
// Acme/Proofs/GenDbcWriter*.lean prove, section by section, that the generated TEXT is an
// admissible layout of the token list of the hand model Acme.Dbc.writeToks.
//
// A special-purpose translator; it FAILS LOUDLY - exit status 1 with file:line and the reason - on
// every construct outside the subset below, so a changed source is never mistranslated silently.
//
//	*writer receiver `w`        ↦ `(hex : Bool)` = w.hexNumbersEnabled; `w.f` (an io.Writer that is only
//	                              appended to, through fmt.Fprintf) ↦ the accumulated text `out : String`
//	                              threaded through every effectful function: F hex args out = out'
//	                              (a failing io.Writer - the panic(err) of `print` - is outside the model)
//	fmt.Fprintf(w.f, F, a...)   ↦ out ++ pieces of F: literal text, `%s` / `%d` / `%v` ↦ the translated
//	                              argument (%s: string; %d: int ↦ formatInt, uint32 ↦ formatUint; %v: either),
//	                              `%%` ↦ "%"; any other verb / flag / arity mismatch: refused.  The methods
//	                              whose body is one Fprintf (`print`, `println`, `newLine`) are read from the
//	                              source: `format+"\n"` is evaluated at each call site (constant formats only)
//	getKeyword(keywordX)        ↦ the key of the `keywords` map literal of keyword.go whose value is the
//	                              constant (values must be pairwise distinct: map iteration order)
//	newSymbolsValues, envVarAccessTypes ↦ generated tables read from the literals of keyword.go
//	for k, v := range <global map> { if v == e { .. } }  ↦ recursion over the generated table (source
//	                              order; values pairwise distinct, so at most one iteration acts)
//	for [idx,] x := range xs    ↦ `F_loopN`, structural recursion over the list (idx : Int from 0)
//	writeSlice[T any]           ↦ translated like every other function (generic in {T : Type});
//	                              method values `w.writeX` ↦ `(writeX hex)`
//	defer w.m()                 ↦ the call at every exit of the function behind the defer statement (LIFO);
//	                              only a parameterless method of the receiver, only at the top level
//	if c { ..; return }         ↦ if c then .. <deferred> else <rest>
//	if / else, switch on an enum ↦ `let <assigned variables> := if .. / match ..`
//	if p != nil (optional part) ↦ match p with | some x => .. | none => ..
//	strconv.FormatFloat(v,'f',-1,64) ↦ Acme.Dbc.formatDouble v  (FLOAT-AS-TEXT convention of Core/Dbc.lean: a
//	                              float64 field IS its 'f', -1, 64 text; any other format / precision: refused)
//	strconv.FormatInt(int64(v),10) ↦ Acme.Dbc.formatInt (int) / formatUint (uint32); base 16 on uint32 ↦
//	                              formatHexDigits; strconv.FormatUint(uint64(v),10) ↦ formatUint
//	AST types                   ↦ the structures of Core/Dbc.lean through the projection table `dwStructs`
//	                              (every Go field must be in the table and vice versa), enum constants
//	                              through `dwEnums` (every constant of the Go type must be in the table)
package main

import (
	"fmt"
	"go/ast"
	"go/constant"
	"go/token"
	"go/types"
	"os"
	"path/filepath"
	"strings"
	"unicode/utf8"

	"golang.org/x/tools/go/packages"
)

func init() { extraWriters = append(extraWriters, writeDbcWriter) }

const (
	dwSrcFile  = "writer.go"
	dwOutFile  = "DbcWriter.lean"
	dwRecvType = "writer"
	dwHexField = "hexNumbersEnabled"
	dwOutField = "f"
)

// ---------------------------------------------------------------- spec: projection tables

type dwFieldSpec struct {
	lean string // Lean projection ("" for the only field of a wrapped struct)
	opt  bool   // pointer field that may be nil ↦ Option
}

type dwStructSpec struct {
	lean   string // Lean type
	wrap   bool   // the struct is represented by its only field
	fields map[string]dwFieldSpec
}

// "GoStruct LeanType Field=proj Field=?proj(optional) ..."; LeanType starting with `=` : wrapped
var dwStructTable = []string{
	"File Acme.Dbc.File Version=version NewSymbols=?newSymbols BitTiming=?bitTiming Nodes=?nodes ValueTables=valueTables Messages=messages MessageTransmitters=messageTransmitters EnvVars=envVars EnvVarDatas=envVarDatas SignalTypes=signalTypes Comments=comments Attributes=attributes AttributeDefaults=attributeDefaults AttributeValues=attributeValues ValueEncodings=valueEncodings SignalTypeRefs=signalTypeRefs SignalGroups=signalGroups SignalExtValueTypes=signalExtValueTypes ExtendedMuxes=extendedMuxes",
	"NewSymbols =List_String Symbols=",
	"Nodes =List_String Names=",
	"BitTiming Acme.Dbc.BitTiming Baudrate=baudrate BitTimingReg1=bitTimingReg1 BitTimingReg2=bitTimingReg2",
	"ValueTable Acme.Dbc.ValueTable Name=name Values=values",
	"ValueDescription Acme.Dbc.ValueDescription ID=id Name=name",
	"ValueEncoding Acme.Dbc.ValueEncoding Kind=kind MessageID=messageID SignalName=signalName EnvVarName=envVarName Values=values",
	"Message Acme.Dbc.Message ID=id Name=name Size=size Transmitter=transmitter Signals=signals",
	"Signal Acme.Dbc.Signal Name=name IsMultiplexor=isMultiplexor IsMultiplexed=isMultiplexed MuxSwitchValue=muxSwitchValue Size=size StartBit=startBit ByteOrder=byteOrder ValueType=valueType Factor=factor Offset=offset Min=min Max=max Unit=unit Receivers=receivers",
	"SignalExtValueType Acme.Dbc.SignalExtValueType MessageID=messageID SignalName=signalName ExtValueType=extValueType",
	"MessageTransmitter Acme.Dbc.MessageTransmitter MessageID=messageID Transmitters=transmitters",
	"EnvVar Acme.Dbc.EnvVar Name=name Type=type Min=min Max=max Unit=unit InitialValue=initialValue ID=id AccessType=accessType AccessNodes=accessNodes",
	"EnvVarData Acme.Dbc.EnvVarData EnvVarName=envVarName DataSize=dataSize",
	"SignalType Acme.Dbc.SignalType TypeName=typeName Size=size ByteOrder=byteOrder ValueType=valueType Factor=factor Offset=offset Min=min Max=max Unit=unit DefaultValue=defaultValue ValueTableName=valueTableName",
	"SignalTypeRef Acme.Dbc.SignalTypeRef TypeName=typeName MessageID=messageID SignalName=signalName",
	"SignalGroup Acme.Dbc.SignalGroup MessageID=messageID GroupName=groupName Repetitions=repetitions SignalNames=signalNames",
	"Comment Acme.Dbc.Comment Kind=kind Text=text NodeName=nodeName MessageID=messageID SignalName=signalName EnvVarName=envVarName",
	"Attribute Acme.Dbc.Attribute Kind=kind Type=type Name=name MinInt=minInt MaxInt=maxInt MinHex=minHex MaxHex=maxHex MinFloat=minFloat MaxFloat=maxFloat EnumValues=enumValues",
	"AttributeDefault Acme.Dbc.AttributeDefault Type=type AttributeName=attributeName ValueString=valueString ValueInt=valueInt ValueHex=valueHex ValueFloat=valueFloat",
	"AttributeValue Acme.Dbc.AttributeValue AttributeKind=attributeKind Type=type AttributeName=attributeName NodeName=nodeName MessageID=messageID SignalName=signalName EnvVarName=envVarName ValueString=valueString ValueInt=valueInt ValueHex=valueHex ValueFloat=valueFloat",
	"ExtendedMux Acme.Dbc.ExtendedMux MessageID=messageID MultiplexorName=multiplexorName MultiplexedName=multiplexedName Ranges=ranges",
	"ExtendedMuxRange Acme.Dbc.ExtendedMuxRange From=from_ To=to",
}

// "GoType LeanType GoConst=ctor ..."
var dwEnumTable = []string{
	"SignalByteOrder Acme.Dbc.ByteOrder SignalLittleEndian=littleEndian SignalBigEndian=bigEndian",
	"SignalValueType Acme.Dbc.ValueType SignalUnsigned=unsigned SignalSigned=signed",
	"SignalExtValueTypeType Acme.Dbc.ExtValueType SignalExtValueTypeInteger=integer SignalExtValueTypeFloat=float SignalExtValueTypeDouble=double",
	"EnvVarType Acme.Dbc.EnvVarType EnvVarInt=int EnvVarFloat=float EnvVarString=string",
	"EnvVarAccessType Acme.Dbc.AccessType EnvVarDummyNodeVector0=v0 EnvVarDummyNodeVector1=v1 EnvVarDummyNodeVector2=v2 EnvVarDummyNodeVector3=v3 EnvVarDummyNodeVector8000=v8000 EnvVarDummyNodeVector8001=v8001 EnvVarDummyNodeVector8002=v8002 EnvVarDummyNodeVector8003=v8003",
	"ValueEncodingKind Acme.Dbc.ValueEncodingKind ValueEncodingSignal=signal ValueEncodingEnvVar=envVar",
	"CommentKind Acme.Dbc.CommentKind CommentGeneral=general CommentNode=node CommentMessage=message CommentSignal=signal CommentEnvVar=envVar",
	"AttributeKind Acme.Dbc.AttributeKind AttributeGeneral=general AttributeNode=node AttributeMessage=message AttributeSignal=signal AttributeEnvVar=envVar",
	"AttributeType Acme.Dbc.AttributeType AttributeInt=int AttributeFloat=float AttributeString=string AttributeEnum=enum AttributeHex=hex",
	"AttributeDefaultType Acme.Dbc.AttrValType AttributeDefaultInt=int AttributeDefaultString=string AttributeDefaultFloat=float AttributeDefaultHex=hex",
	"AttributeValueType Acme.Dbc.AttrValType AttributeValueInt=int AttributeValueString=string AttributeValueFloat=float AttributeValueHex=hex",
}

type dwEnumSpec struct {
	lean   string
	consts map[string]string
	order  []string
}

// names the generated text uses itself
var dwOwnNames = map[string]bool{"out": true, "hex": true, "rest_": true}

// ---------------------------------------------------------------- types

type dwKind int

const (
	dwStr dwKind = iota
	dwFloat
	dwInt
	dwU32
	dwBool
	dwEnum
	dwStruct
	dwList
	dwOpt
	dwFunc
	dwTParam
	dwPair // element of a generated map table
)

type dwType struct {
	k      dwKind
	name   string // enum / struct: Go name; type parameter: its name
	elem   *dwType
	elem2  *dwType  // dwPair
	params []dwType // dwFunc
}

type dwErr struct {
	pos token.Pos
	msg string
}

type dwVar struct {
	name string
	ty   dwType
}

type dwFn struct {
	decl    *ast.FuncDecl
	goName  string
	method  bool
	kind    int // 0 effect, 1 value, 2 format wrapper with a format parameter, 3 parameterless wrapper
	state   int // 0 untouched, 1 in progress, 2 done
	fmtExpr ast.Expr
	fmtPar  types.Object
	nLoop   int
}

type dwtr struct {
	info    *types.Info
	pkg     *types.Package
	structs map[string]*dwStructSpec
	enums   map[string]*dwEnumSpec
	fns     map[string]*dwFn
	order   []string
	out     []string // finished definitions, in dependency order
	globals map[string]bool
	gdefs   []string
	cur     *dwFn
	recv    types.Object
	vars    map[types.Object]*dwVar
	visible []types.Object // declaration order
	optBnd  map[string]string
	nOpt    int
	defers  []string
	keyOf   map[string]string // exact constant value ↦ keyword text
	kwShape bool
}

func (t *dwtr) fail(n ast.Node, format string, a ...any) {
	var p token.Pos
	if n != nil {
		p = n.Pos()
	}
	panic(dwErr{p, fmt.Sprintf(format, a...)})
}

func (t *dwtr) leanType(ty dwType) string {
	switch ty.k {
	case dwStr, dwFloat:
		return "String"
	case dwInt:
		return "Int"
	case dwU32:
		return "Nat"
	case dwBool:
		return "Bool"
	case dwEnum:
		return t.enums[ty.name].lean
	case dwStruct:
		return t.structs[ty.name].lean
	case dwList:
		return "List (" + t.leanType(*ty.elem) + ")"
	case dwOpt:
		return "Option (" + t.leanType(*ty.elem) + ")"
	case dwPair:
		return "(" + t.leanType(*ty.elem) + " × " + t.leanType(*ty.elem2) + ")"
	case dwTParam:
		return ty.name
	case dwFunc:
		s := ""
		for _, p := range ty.params {
			s += t.leanParamType(p) + " → "
		}
		return s + "String → String"
	}
	return "?"
}

func (t *dwtr) leanParamType(ty dwType) string {
	s := t.leanType(ty)
	if ty.k == dwFunc {
		return "(" + s + ")"
	}
	return s
}

func dwSame(a, b dwType) bool {
	if a.k != b.k || a.name != b.name {
		return false
	}
	if (a.elem == nil) != (b.elem == nil) {
		return false
	}
	if a.elem != nil && !dwSame(*a.elem, *b.elem) {
		return false
	}
	return true
}

// goType: the Lean-side type of a Go type (a pointer to a known struct is a NON-nil pointer here;
// optional pointer fields are handled at the field projection)
func (t *dwtr) goType(ty types.Type, at ast.Node) dwType {
	ty = types.Unalias(ty)
	switch x := ty.(type) {
	case *types.Basic:
		switch x.Kind() {
		case types.String, types.UntypedString:
			return dwType{k: dwStr}
		case types.Float64:
			return dwType{k: dwFloat}
		case types.Int, types.UntypedInt:
			return dwType{k: dwInt}
		case types.Uint32:
			return dwType{k: dwU32}
		case types.Bool, types.UntypedBool:
			return dwType{k: dwBool}
		}
	case *types.Named:
		n := x.Obj().Name()
		if x.Obj().Pkg() == t.pkg {
			if _, ok := t.enums[n]; ok {
				return dwType{k: dwEnum, name: n}
			}
		}
	case *types.Pointer:
		if nm, ok := types.Unalias(x.Elem()).(*types.Named); ok && nm.Obj().Pkg() == t.pkg {
			if _, ok := t.structs[nm.Obj().Name()]; ok {
				return dwType{k: dwStruct, name: nm.Obj().Name()}
			}
		}
	case *types.Slice:
		e := t.goType(x.Elem(), at)
		return dwType{k: dwList, elem: &e}
	case *types.TypeParam:
		return dwType{k: dwTParam, name: x.Obj().Name()}
	case *types.Signature:
		if x.Results().Len() != 0 || x.Variadic() || x.Recv() != nil && false {
			t.fail(at, "function type %s (only func(..) without results)", ty.String())
		}
		var ps []dwType
		for i := 0; i < x.Params().Len(); i++ {
			ps = append(ps, t.goType(x.Params().At(i).Type(), at))
		}
		return dwType{k: dwFunc, params: ps}
	}
	t.fail(at, "type %s is outside the translated subset", ty.String())
	return dwType{}
}

// ---------------------------------------------------------------- Lean string literals

func (t *dwtr) lit(s string, at ast.Node) string {
	if !utf8.ValidString(s) {
		t.fail(at, "string constant that is not valid UTF-8")
	}
	var b strings.Builder
	b.WriteByte('"')
	for _, r := range s {
		switch {
		case r == '"':
			b.WriteString("\\\"")
		case r == '\\':
			b.WriteString("\\\\")
		case r == '\n':
			b.WriteString("\\n")
		case r == '\t':
			b.WriteString("\\t")
		case r == '\r':
			b.WriteString("\\r")
		case r < 0x20 || r == 0x7f:
			fmt.Fprintf(&b, "\\x%02x", r)
		default:
			b.WriteRune(r)
		}
	}
	b.WriteByte('"')
	return b.String()
}

// ---------------------------------------------------------------- spec parsing and checks against the source

func (t *dwtr) loadSpec() {
	t.structs = map[string]*dwStructSpec{}
	t.enums = map[string]*dwEnumSpec{}
	for _, line := range dwStructTable {
		f := strings.Fields(line)
		sp := &dwStructSpec{lean: f[1], fields: map[string]dwFieldSpec{}}
		if strings.HasPrefix(sp.lean, "=") {
			sp.wrap = true
			sp.lean = strings.ReplaceAll(sp.lean[1:], "_", " ")
		}
		for _, kv := range f[2:] {
			i := strings.Index(kv, "=")
			fs := dwFieldSpec{lean: kv[i+1:]}
			if strings.HasPrefix(fs.lean, "?") {
				fs.opt = true
				fs.lean = fs.lean[1:]
			}
			sp.fields[kv[:i]] = fs
		}
		t.structs[f[0]] = sp
	}
	for _, line := range dwEnumTable {
		f := strings.Fields(line)
		sp := &dwEnumSpec{lean: f[1], consts: map[string]string{}}
		for _, kv := range f[2:] {
			i := strings.Index(kv, "=")
			sp.consts[kv[:i]] = kv[i+1:]
			sp.order = append(sp.order, kv[:i])
		}
		t.enums[f[0]] = sp
	}
	scope := t.pkg.Scope()
	// every Go field of a translated struct is in the table and vice versa
	for name, sp := range t.structs {
		obj := scope.Lookup(name)
		if obj == nil {
			t.fail(nil, "struct %s of the projection table does not exist in package dbc", name)
		}
		st, ok := obj.Type().Underlying().(*types.Struct)
		if !ok {
			t.fail(nil, "%s is not a struct", name)
		}
		seen := map[string]bool{}
		for i := 0; i < st.NumFields(); i++ {
			f := st.Field(i)
			if f.Embedded() && f.Name() == "withLocation" {
				continue
			}
			if _, ok := sp.fields[f.Name()]; !ok {
				panic(dwErr{f.Pos(), fmt.Sprintf("field %s.%s is not in the projection table", name, f.Name())})
			}
			seen[f.Name()] = true
		}
		for fn := range sp.fields {
			if !seen[fn] {
				panic(dwErr{obj.Pos(), fmt.Sprintf("field %s.%s of the projection table does not exist in the source", name, fn)})
			}
		}
	}
	// every constant of a translated enum type is in the table and vice versa; values pairwise distinct
	for name, sp := range t.enums {
		obj := scope.Lookup(name)
		if obj == nil {
			t.fail(nil, "enum type %s of the table does not exist in package dbc", name)
		}
		seen := map[string]bool{}
		vals := map[string]string{}
		for _, n := range scope.Names() {
			c, ok := scope.Lookup(n).(*types.Const)
			if !ok || !types.Identical(c.Type(), obj.Type()) {
				continue
			}
			if _, ok := sp.consts[n]; !ok {
				panic(dwErr{c.Pos(), fmt.Sprintf("constant %s of type %s is not in the enum table", n, name)})
			}
			if o, dup := vals[c.Val().ExactString()]; dup {
				panic(dwErr{c.Pos(), fmt.Sprintf("constants %s and %s of type %s have the same value", o, n, name)})
			}
			vals[c.Val().ExactString()] = n
			seen[n] = true
		}
		for cn := range sp.consts {
			if !seen[cn] {
				panic(dwErr{obj.Pos(), fmt.Sprintf("constant %s of the enum table does not exist in the source", cn)})
			}
		}
	}
}

// globalLit: the composite literal a package-level variable is initialised with
func (t *dwtr) globalLit(dbc *packages.Package, name string) (*ast.CompositeLit, ast.Node) {
	for _, f := range dbc.Syntax {
		for _, d := range f.Decls {
			gd, ok := d.(*ast.GenDecl)
			if !ok || gd.Tok != token.VAR {
				continue
			}
			for _, s := range gd.Specs {
				vs := s.(*ast.ValueSpec)
				for i, id := range vs.Names {
					if id.Name == name {
						if i >= len(vs.Values) {
							t.fail(id, "variable %s has no initialiser", name)
						}
						cl, ok := vs.Values[i].(*ast.CompositeLit)
						if !ok {
							t.fail(id, "variable %s is not initialised with a composite literal", name)
						}
						return cl, id
					}
				}
			}
		}
	}
	t.fail(nil, "package-level variable %s not found", name)
	return nil, nil
}

func (t *dwtr) constString(e ast.Expr) string {
	tv, ok := t.info.Types[e]
	if !ok || tv.Value == nil || tv.Value.Kind() != constant.String {
		t.fail(e, "`%s` is not a constant string", exprStr(e))
	}
	return constant.StringVal(tv.Value)
}

var dwPkgs *packages.Package

// keyword table: getKeyword must have the shape `for s, k := range keywords { if k == kind { return s } }; return ""`
func (t *dwtr) loadKeywords() {
	if t.keyOf != nil {
		return
	}
	var fd *ast.FuncDecl
	for _, f := range dwPkgs.Syntax {
		for _, d := range f.Decls {
			if x, ok := d.(*ast.FuncDecl); ok && x.Recv == nil && x.Name.Name == "getKeyword" {
				fd = x
			}
		}
	}
	if fd == nil || fd.Body == nil {
		t.fail(nil, "function getKeyword not found")
	}
	bad := func(n ast.Node) {
		t.fail(n, "getKeyword does not have the shape `for s, k := range keywords { if k == kind { return s } }; return \"\"`")
	}
	if len(fd.Type.Params.List) != 1 || len(fd.Type.Params.List[0].Names) != 1 || len(fd.Body.List) != 2 {
		bad(fd)
	}
	par := fd.Type.Params.List[0].Names[0].Name
	rs, ok := fd.Body.List[0].(*ast.RangeStmt)
	if !ok {
		bad(fd.Body.List[0])
	}
	mp, ok1 := rs.X.(*ast.Ident)
	k, ok2 := rs.Key.(*ast.Ident)
	v, ok3 := rs.Value.(*ast.Ident)
	if !ok1 || !ok2 || !ok3 || len(rs.Body.List) != 1 {
		bad(rs)
	}
	is, ok := rs.Body.List[0].(*ast.IfStmt)
	if !ok || is.Init != nil || is.Else != nil || len(is.Body.List) != 1 {
		bad(rs.Body)
	}
	c := exprStr(is.Cond)
	if c != v.Name+" == "+par && c != par+" == "+v.Name {
		bad(is.Cond)
	}
	r, ok := is.Body.List[0].(*ast.ReturnStmt)
	if !ok || len(r.Results) != 1 || exprStr(r.Results[0]) != k.Name {
		bad(is.Body)
	}
	r2, ok := fd.Body.List[1].(*ast.ReturnStmt)
	if !ok || len(r2.Results) != 1 || t.constString(r2.Results[0]) != "" {
		bad(fd.Body.List[1])
	}
	cl, _ := t.globalLit(dwPkgs, mp.Name)
	t.keyOf = map[string]string{}
	for _, el := range cl.Elts {
		kv, ok := el.(*ast.KeyValueExpr)
		if !ok {
			t.fail(el, "element of the keyword table")
		}
		key := t.constString(kv.Key)
		tv := t.info.Types[kv.Value]
		if tv.Value == nil {
			t.fail(kv.Value, "value of the keyword table is not a constant")
		}
		val := tv.Value.ExactString()
		if o, dup := t.keyOf[val]; dup {
			t.fail(kv, "keywords %q and %q have the same kind: getKeyword depends on the map iteration order", o, key)
		}
		t.keyOf[val] = key
	}
}

// ---------------------------------------------------------------- driver

func writeDbcWriter(outDir string, root, dbc *packages.Package) {
	path := filepath.Join(outDir, dwOutFile)
	os.Remove(path) // never keep a stale generated file
	defer func() {
		if r := recover(); r != nil {
			be, ok := r.(dwErr)
			if !ok {
				panic(r)
			}
			where := dwSrcFile + ": "
			if be.pos.IsValid() {
				ps := fset.Position(be.pos)
				where = fmt.Sprintf("%s:%d: ", filepath.Base(ps.Filename), ps.Line)
			}
			fmt.Fprintf(os.Stderr, "extract/dbcwriter: %sunsupported by the translator: %s\n", where, be.msg)
			os.Exit(1)
		}
	}()
	dwPkgs = dbc
	t := &dwtr{info: dbc.TypesInfo, pkg: dbc.Types, fns: map[string]*dwFn{}, globals: map[string]bool{}}
	t.loadSpec()
	files := inFiles(dbc, []string{dwSrcFile})
	if len(files) != 1 {
		t.fail(nil, "source file %s not found", dwSrcFile)
	}
	t.collect(files[0])
	for _, n := range t.order {
		t.need(n, nil)
	}
	var b strings.Builder
	b.WriteString("/- GENERATED by tools/extract (kernels_dbcwriter.go) from /repo/dbc/writer.go, keyword.go - do not edit.\n")
	b.WriteString("Every function of the DBC writer, translated from the current source: the io.Writer is the\naccumulated text `out`, `hex` = w.hexNumbersEnabled. -/\n")
	b.WriteString("import Acme.Core.Dbc\n\nset_option linter.unusedVariables false\n\nnamespace Acme.Gen.W\n\n")
	for _, g := range t.gdefs {
		b.WriteString(g + "\n")
	}
	for _, d := range t.out {
		b.WriteString(d + "\n")
	}
	b.WriteString("/-- the translated functions, in the order of the source -/\ndef functions : List String :=\n  [")
	for i, n := range t.order {
		if i > 0 {
			b.WriteString(", ")
		}
		b.WriteString(leanStr(n))
	}
	b.WriteString("]\n\nend Acme.Gen.W\n")
	if err := os.WriteFile(path, []byte(b.String()), 0o644); err != nil {
		fmt.Fprintln(os.Stderr, "extract/dbcwriter:", err)
		os.Exit(1)
	}
}
