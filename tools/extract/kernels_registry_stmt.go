package main

// Translator stage 13, statements and expressions (see kernels_registry.go).

import (
	"fmt"
	"go/ast"
	"go/token"
	"go/types"
	"regexp"
	"strconv"
	"strings"
)

type rcont func(env *renv) string
type rvalk func(term string, t rtype, env *renv) string

var rSimple = regexp.MustCompile(`^[A-Za-z_][A-Za-z0-9_.]*$`)

func rparen(s string) string {
	if rSimple.MatchString(s) || (strings.HasPrefix(s, "(") && strings.HasSuffix(s, ")")) || (strings.HasPrefix(s, "\"") && strings.HasSuffix(s, "\"")) {
		return s
	}
	return "(" + s + ")"
}

// a non-final branch: parenthesised block
func rblock(env *renv, code string) string {
	return env.ind() + "(\n" + code + "\n" + env.ind() + ")"
}

func (f *rfn) objOf(id *ast.Ident) types.Object {
	if o := f.g.info.Defs[id]; o != nil {
		return o
	}
	return f.g.info.Uses[id]
}

func (e *renv) byObj(o types.Object) *rbind {
	for i := len(e.vars) - 1; i >= 0; i-- {
		if e.vars[i].obj == o {
			return &e.vars[i]
		}
	}
	return nil
}

func (e *renv) bindObj(b rbind) *renv {
	n := e.clone()
	for i := range n.vars {
		if n.vars[i].obj == b.obj {
			n.vars[i] = b
			return n
		}
	}
	n.vars = append(n.vars, b)
	return n
}

// leaving a block: the variables defined inside go out of scope
func rscope(outer *renv, k rcont) rcont {
	n := len(outer.vars)
	return func(e *renv) string {
		e2 := e.clone()
		if len(e2.vars) > n {
			e2.vars = e2.vars[:n]
		}
		return k(e2)
	}
}

// ---- statements ----

func (f *rfn) stmts(list []ast.Stmt, env *renv, k rcont) string {
	if len(list) == 0 {
		return k(env)
	}
	rest := func(e *renv) string { return f.stmts(list[1:], e, k) }
	switch s := list[0].(type) {
	case *ast.BlockStmt:
		return f.stmts(s.List, env, rscope(env, rest))
	case *ast.ReturnStmt:
		return f.retStmt(s, env)
	case *ast.ExprStmt:
		c, ok := s.X.(*ast.CallExpr)
		if !ok {
			f.die(s.Pos(), "expression statement %s", exprStr(s.X))
		}
		return f.callStmt(c, env, rest)
	case *ast.AssignStmt:
		return f.assign(s, env, rest)
	case *ast.IfStmt:
		outer := env
		after := rscope(outer, rest)
		body := func(e *renv) string {
			return f.cond(s.Cond, e,
				func(e2 *renv) string { return f.stmts(s.Body.List, e2, after) },
				func(e2 *renv) string {
					if s.Else == nil {
						return after(e2)
					}
					return f.stmts([]ast.Stmt{s.Else}, e2, after)
				})
		}
		if s.Init != nil {
			return f.stmts([]ast.Stmt{s.Init}, env, body)
		}
		return body(env)
	case *ast.SwitchStmt:
		if s.Init != nil || s.Tag == nil {
			f.die(s.Pos(), "switch with an init statement or without a tag")
		}
		after := rscope(env, rest)
		return f.expr(s.Tag, env, func(tag string, tt rtype, e *renv) string {
			if tt.k != rInt && tt.k != rNat {
				f.die(s.Pos(), "switch over a non-integer tag")
			}
			var clauses []*ast.CaseClause
			var dflt *ast.CaseClause
			for _, c := range s.Body.List {
				cc := c.(*ast.CaseClause)
				if cc.List == nil {
					dflt = cc
				} else {
					clauses = append(clauses, cc)
				}
				for _, st := range cc.Body {
					if br, ok := st.(*ast.BranchStmt); ok {
						f.die(br.Pos(), "%s inside a switch", br.Tok)
					}
				}
			}
			var chain func(i int, e *renv) string
			chain = func(i int, e *renv) string {
				if i == len(clauses) {
					if dflt != nil {
						return f.stmts(dflt.Body, e, after)
					}
					return after(e)
				}
				cc := clauses[i]
				var conds []string
				for _, ce := range cc.List {
					tv := f.g.info.Types[ce]
					if tv.Value == nil {
						f.die(ce.Pos(), "case expression is not a constant")
					}
					conds = append(conds, tag+" = "+tv.Value.ExactString())
				}
				d := e.deeper()
				return e.ind() + "if " + strings.Join(conds, " ∨ ") + " then\n" +
					rblock(d, f.stmts(cc.Body, d.deeper(), after)) + "\n" + e.ind() + "else\n" + chain(i+1, d)
			}
			return chain(0, e)
		})
	case *ast.RangeStmt:
		return f.rangeStmt(s, env, rest)
	case *ast.BranchStmt:
		if s.Tok == token.CONTINUE && s.Label == nil && env.loop != nil {
			return f.loopNext(env)
		}
		f.die(s.Pos(), "%s", s.Tok)
	}
	f.die(list[0].Pos(), "statement %T", list[0])
	return ""
}

func (f *rfn) asResult(term string, t rtype, want rtype, pos token.Pos) string {
	switch {
	case want.k == rErr && t.k == rErrV:
		return "(some " + rparen(term) + ")"
	case want.k == rPtr && t.k == rAddr:
		return "(some " + rparen(term) + ")"
	case want.k == t.k:
		return rparen(term)
	case want.k == rAddr && t.k == rNat, want.k == rNat && t.k == rAddr:
		return rparen(term)
	}
	f.die(pos, "a value of kind %s where %s is expected", t.lean(), want.lean())
	return ""
}

func (f *rfn) retStmt(s *ast.ReturnStmt, env *renv) string {
	want := f.sig.results
	if len(s.Results) != len(want) {
		// `return f(...)` with a multi-valued call is not needed
		f.die(s.Pos(), "return with %d values for %d results", len(s.Results), len(want))
	}
	var vals []string
	var step func(i int, e *renv) string
	step = func(i int, e *renv) string {
		if i == len(s.Results) {
			return f.ret(e, vals, s.Pos())
		}
		r := s.Results[i]
		if id, ok := r.(*ast.Ident); ok && id.Name == "nil" && f.g.info.Uses[id] == types.Universe.Lookup("nil") {
			if want[i].k != rErr && want[i].k != rPtr {
				f.die(r.Pos(), "nil returned as %s", want[i].lean())
			}
			vals = append(vals, "none")
			return step(i+1, e)
		}
		if id, ok := r.(*ast.Ident); ok && want[i].k == rTParam {
			b := e.byObj(f.objOf(id))
			if b == nil {
				f.die(r.Pos(), "unknown variable %s", id.Name)
			}
			if b.zero {
				vals = append(vals, "none")
			} else {
				vals = append(vals, "(some "+b.term+")")
			}
			return step(i+1, e)
		}
		return f.expr(r, e, func(t string, ty rtype, e2 *renv) string {
			vals = append(vals, f.asResult(t, ty, want[i], r.Pos()))
			return step(i+1, e2)
		})
	}
	return step(0, env)
}

func (f *rfn) assign(s *ast.AssignStmt, env *renv, k rcont) string {
	if s.Tok != token.DEFINE && s.Tok != token.ASSIGN {
		f.die(s.Pos(), "assignment operator %s", s.Tok)
	}
	// comma-ok map read: `v, ok := m[k]`
	if len(s.Lhs) == 2 && len(s.Rhs) == 1 {
		if ix, ok := s.Rhs[0].(*ast.IndexExpr); ok && s.Tok == token.DEFINE {
			return f.expr(ix.X, env, func(m string, mt rtype, e *renv) string {
				if mt.k != rMap {
					f.die(ix.Pos(), "comma-ok index of a non-map")
				}
				return f.expr(ix.Index, e, func(key string, _ rtype, e *renv) string {
					vid := s.Lhs[0].(*ast.Ident)
					oid := s.Lhs[1].(*ast.Ident)
					pat := "_"
					eT, eF := e.deeper().deeper(), e.deeper().deeper()
					if vid.Name != "_" {
						pat = f.fresh(vid.Name)
						eT = eT.bindObj(rbind{obj: f.objOf(vid), goName: vid.Name, term: pat, t: *mt.elem})
						eF = eF.bindObj(rbind{obj: f.objOf(vid), goName: vid.Name, term: "", t: *mt.elem, zero: true})
					}
					if oid.Name != "_" {
						eT = eT.bindObj(rbind{obj: f.objOf(oid), goName: oid.Name, term: "true", t: rtype{k: rBool}})
						eF = eF.bindObj(rbind{obj: f.objOf(oid), goName: oid.Name, term: "false", t: rtype{k: rBool}})
					}
					return e.ind() + "match GoMap.lookup " + rparen(m) + " " + rparen(key) + " with\n" +
						e.ind() + "| some " + pat + " =>\n" + rblock(e.deeper(), k(eT)) + "\n" +
						e.ind() + "| none =>\n" + k(eF)
				})
			})
		}
	}
	// multi-valued call
	if len(s.Rhs) == 1 {
		if c, ok := s.Rhs[0].(*ast.CallExpr); ok && len(s.Lhs) >= 1 {
			if _, isConv := f.g.info.Types[c.Fun]; !isConv || !f.g.info.Types[c.Fun].IsType() {
				if len(s.Lhs) > 1 || f.isHeapCall(c) {
					return f.call(c, env, func(terms []string, tys []rtype, e *renv) string {
						if len(terms) != len(s.Lhs) {
							f.die(s.Pos(), "%d values assigned to %d variables", len(terms), len(s.Lhs))
						}
						code := ""
						for i, l := range s.Lhs {
							id, ok := l.(*ast.Ident)
							if !ok {
								f.die(l.Pos(), "call result assigned to a non-variable")
							}
							if id.Name == "_" {
								continue
							}
							var c2 string
							c2, e = f.bindLocal(id, terms[i], tys[i], e, s.Tok)
							code += c2
						}
						return code + k(e)
					})
				}
			}
		}
	}
	if len(s.Lhs) != 1 || len(s.Rhs) != 1 {
		f.die(s.Pos(), "parallel assignment")
	}
	lhs, rhs := s.Lhs[0], s.Rhs[0]
	switch l := lhs.(type) {
	case *ast.Ident:
		// error wrapper under construction
		if u, ok := rhs.(*ast.UnaryExpr); ok && u.Op == token.AND {
			if lit, ok := u.X.(*ast.CompositeLit); ok {
				return f.errWrapper(lit, env, func(term string, unset bool, e *renv) string {
					if unset {
						return k(e.bindObj(rbind{obj: f.objOf(l), goName: l.Name, t: rtype{k: rErrV}, unset: true}))
					}
					code, e2 := f.bindLocal(l, term, rtype{k: rErrV}, e, s.Tok)
					return code + k(e2)
				})
			}
		}
		return f.expr(rhs, env, func(t string, ty rtype, e *renv) string {
			code, e2 := f.bindLocal(l, t, ty, e, s.Tok)
			return code + k(e2)
		})
	case *ast.IndexExpr:
		// m[k] = v on a local map or (set methods) on s.m
		return f.expr(l.Index, env, func(key string, _ rtype, e *renv) string {
			return f.expr(rhs, e, func(v string, _ rtype, e *renv) string {
				return f.updateMapVar(l.X, e, func(m string) string {
					return "GoMap.insert " + rparen(m) + " " + rparen(key) + " " + rparen(v)
				}, k)
			})
		})
	case *ast.SelectorExpr:
		if f.g.isErrWrapperField(l) {
			id, ok := l.X.(*ast.Ident)
			if !ok || l.Sel.Name != "Err" {
				f.die(l.Pos(), "write to an error wrapper field other than Err")
			}
			return f.expr(rhs, env, func(t string, ty rtype, e *renv) string {
				if ty.k != rErrV {
					f.die(rhs.Pos(), "cause of the wrapper is not known to be non-nil")
				}
				b := e.byObj(f.objOf(id))
				if b == nil || !b.unset {
					f.die(l.Pos(), "the wrapper %s already has a cause", id.Name)
				}
				return k(e.bindObj(rbind{obj: b.obj, goName: b.goName, term: t, t: rtype{k: rErrV}}))
			})
		}
		if regIgnoredWrites[f.g.fieldKey(l)] {
			ast.Inspect(rhs, func(n ast.Node) bool {
				if _, ok := n.(*ast.CallExpr); ok {
					f.die(rhs.Pos(), "call in an ignored write")
				}
				return true
			})
			return k(env)
		}
		return f.fieldWrite(l, rhs, env, k)
	}
	f.die(s.Pos(), "assignment to %s", exprStr(lhs))
	return ""
}

func (f *rfn) bindLocal(id *ast.Ident, term string, ty rtype, env *renv, tok token.Token) (string, *renv) {
	obj := f.objOf(id)
	if tok == token.ASSIGN {
		b := env.byObj(obj)
		if b == nil {
			f.die(id.Pos(), "assignment to %s, which is not a local variable", id.Name)
		}
		// keep the declared kind of the variable
		if b.t.k == rSlice || b.t.k == rMap {
			ty = b.t
		}
	}
	if rSimple.MatchString(term) || term == "true" || term == "false" {
		return "", env.bindObj(rbind{obj: obj, goName: id.Name, term: term, t: ty})
	}
	name := f.fresh(id.Name)
	return env.ind() + "let " + name + " := " + term + "\n", env.bindObj(rbind{obj: obj, goName: id.Name, term: name, t: ty})
}

// m := f(m) for a map held in a local variable or (set methods) the receiver's map
func (f *rfn) updateMapVar(x ast.Expr, env *renv, upd func(m string) string, k rcont) string {
	var id *ast.Ident
	switch v := x.(type) {
	case *ast.Ident:
		id = v
	case *ast.SelectorExpr:
		if r, ok := v.X.(*ast.Ident); ok && f.sig.isSet && r.Name == f.recv && v.Sel.Name == "m" {
			id = r
		}
	}
	if id == nil {
		f.die(x.Pos(), "map update through %s", exprStr(x))
	}
	b := env.byObj(f.objOf(id))
	if b == nil || b.t.k != rMap {
		f.die(x.Pos(), "%s is not a map variable", id.Name)
	}
	name := f.fresh(id.Name)
	e2 := env.bindObj(rbind{obj: b.obj, goName: b.goName, term: name, t: b.t})
	return env.ind() + "let " + name + " := " + upd(b.term) + "\n" + k(e2)
}

func (f *rfn) heapOfPtrExpr(x ast.Expr) (string, bool) {
	t := f.g.info.TypeOf(x)
	if p, ok := t.(*types.Pointer); ok {
		if n, ok := p.Elem().(*types.Named); ok {
			if _, ok := regHeap[n.Obj().Name()]; ok {
				return n.Obj().Name(), true
			}
		}
	}
	return "", false
}

func (f *rfn) fieldWrite(l *ast.SelectorExpr, rhs ast.Expr, env *renv, k rcont) string {
	hs, ok := f.heapOfPtrExpr(l.X)
	if !ok {
		f.die(l.Pos(), "write through %s, which is not a pointer to a heap struct", exprStr(l.X))
	}
	want, ok := regHeap[hs].fields[l.Sel.Name]
	if !ok {
		f.die(l.Pos(), "write to field %s.%s, which is not part of the heap model", hs, l.Sel.Name)
	}
	return f.expr(l.X, env, func(xt string, xty rtype, e *renv) string {
		return f.toAddr(xt, xty, e, l.Pos(), func(a string, e *renv) string {
			val := func(v string, e *renv) string {
				return f.writeRec(hs, a, l.Sel.Name, func(string) string { return v }, e, k)
			}
			if isNilIdent(rhs) {
				if want != "Option Nat" {
					f.die(rhs.Pos(), "nil stored into a %s field", want)
				}
				return val("none", e)
			}
			return f.expr(rhs, e, func(v string, vty rtype, e *renv) string {
				switch {
				case want == "Option Nat" && vty.k == rAddr:
					v = "some " + rparen(v)
				case want == "Option Nat" && vty.k == rPtr:
				case want == vty.lean():
				default:
					f.die(rhs.Pos(), "a %s stored into a %s field", vty.lean(), want)
				}
				return val(v, e)
			})
		})
	})
}

func (f *rfn) writeRec(hs, addr, field string, value func(rec string) string, env *renv, k rcont) string {
	comp := regHeap[hs].comp
	return f.getRec(hs, addr, env, l0, func(r string, e *renv) string {
		r2 := f.fresh(r)
		h2 := f.fresh("h")
		e2 := e.clone()
		for ck := range e2.cache {
			if strings.HasPrefix(ck, comp+"/") {
				delete(e2.cache, ck)
			}
		}
		e2.cache[comp+"/"+addr] = r2
		e2.heap = h2
		code := e.ind() + "let " + r2 + " := { " + r + " with " + field + " := " + value(r) + " }\n"
		code += e.ind() + "let " + h2 + " : H := { " + e.heap + " with " + comp + " := " + e.heap + "." + comp + ".set " + addr + " " + r2 + " }\n"
		return code + k(e2)
	})
}

const l0 = token.NoPos

var rRecNames = map[string]string{"Network": "net", "Bus": "bus", "Node": "nd", "NodeInterface": "ifc", "Message": "msg"}

func (f *rfn) getRec(hs, addr string, env *renv, pos token.Pos, k func(rec string, env *renv) string) string {
	if f.sig.isSet {
		f.die(pos, "heap access in a set method")
	}
	comp := regHeap[hs].comp
	ck := comp + "/" + addr
	if r, ok := env.cache[ck]; ok {
		return k(r, env)
	}
	r := f.fresh(rRecNames[hs] + "_")
	e2 := env.deeper()
	e2.cache[ck] = r
	return env.ind() + "match " + env.heap + "." + comp + ".get " + addr + " with\n" + env.ind() + "| none => .dangling\n" +
		env.ind() + "| some " + r + " =>\n" + k(r, e2)
}

func (f *rfn) toAddr(term string, t rtype, env *renv, pos token.Pos, k func(addr string, env *renv) string) string {
	if t.k == rAddr {
		return k(term, env)
	}
	if t.k != rPtr {
		f.die(pos, "dereference of a %s", t.lean())
	}
	if f.sig.isSet {
		f.die(pos, "pointer dereference in a set method")
	}
	if a, ok := env.nonnil[term]; ok {
		return k(a, env)
	}
	a := f.fresh("a")
	e2 := env.deeper()
	e2.nonnil[term] = a
	return env.ind() + "match " + term + " with\n" + env.ind() + "| none => .panic\n" + env.ind() + "| some " + a + " =>\n" + k(a, e2)
}

// ---- expressions ----

func (f *rfn) expr(x ast.Expr, env *renv, k rvalk) string {
	g := f.g
	switch e := x.(type) {
	case *ast.ParenExpr:
		return f.expr(e.X, env, k)
	case *ast.BasicLit:
		switch e.Kind {
		case token.INT:
			return k(e.Value, rtype{k: rInt}, env)
		case token.STRING:
			s, err := strconv.Unquote(e.Value)
			if err != nil {
				f.die(e.Pos(), "string literal %s", e.Value)
			}
			return k(leanStr(s), rtype{k: rStr}, env)
		}
	case *ast.Ident:
		if e.Name == "true" || e.Name == "false" {
			return k(e.Name, rtype{k: rBool}, env)
		}
		obj := g.info.Uses[e]
		if c, ok := obj.(*types.Const); ok {
			return k(c.Val().ExactString(), g.rtypeOf(c.Type(), e.Pos(), f.key), env)
		}
		if v, ok := obj.(*types.Var); ok && v.Parent() == g.pkg.Types.Scope() {
			if strings.HasPrefix(v.Name(), "Err") && v.Type().String() == "error" {
				g.causes[v.Name()] = true
				return k("Err.mk Cause."+v.Name()+" \"\"", rtype{k: rErrV}, env)
			}
			f.die(e.Pos(), "package-level variable %s", e.Name)
		}
		if b := env.byObj(obj); b != nil {
			if b.unset {
				f.die(e.Pos(), "the error wrapper %s is used before its cause is set", e.Name)
			}
			if b.zero {
				f.die(e.Pos(), "use of the zero value %s", e.Name)
			}
			return k(b.term, b.t, env)
		}
		f.die(e.Pos(), "identifier %s", e.Name)
	case *ast.SelectorExpr:
		if id, ok := e.X.(*ast.Ident); ok && f.sig.isSet && id.Name == f.recv && e.Sel.Name == "m" {
			b := env.byObj(f.objOf(id))
			return k(b.term, b.t, env)
		}
		hs, ok := f.heapOfPtrExpr(e.X)
		if !ok {
			f.die(e.Pos(), "selector %s", exprStr(e))
		}
		return f.expr(e.X, env, func(xt string, xty rtype, e1 *renv) string {
			return f.toAddr(xt, xty, e1, e.Pos(), func(a string, e2 *renv) string {
				if e.Sel.Name == "entityID" {
					return k(a, rtype{k: rNat}, e2)
				}
				if _, ok := regHeap[hs].fields[e.Sel.Name]; !ok {
					f.die(e.Pos(), "field %s.%s is not part of the heap model", hs, e.Sel.Name)
				}
				return f.getRec(hs, a, e2, e.Pos(), func(r string, e3 *renv) string {
					return k(r+"."+e.Sel.Name, g.rtypeOf(g.info.TypeOf(e), e.Pos(), f.key), e3)
				})
			})
		})
	case *ast.UnaryExpr:
		if e.Op == token.AND {
			if lit, ok := e.X.(*ast.CompositeLit); ok {
				return f.errWrapper(lit, env, func(term string, unset bool, e2 *renv) string {
					if unset {
						f.die(e.Pos(), "error wrapper without a cause")
					}
					return k(term, rtype{k: rErrV}, e2)
				})
			}
		}
		if e.Op == token.NOT {
			return f.expr(e.X, env, func(t string, ty rtype, e2 *renv) string {
				if ty.k != rBool {
					f.die(e.Pos(), "! of a %s", ty.lean())
				}
				return k("!"+rparen(t), ty, e2)
			})
		}
	case *ast.CompositeLit:
		ty := g.rtypeOf(g.info.TypeOf(e), e.Pos(), f.key)
		if ty.k == rSlice && len(e.Elts) == 0 {
			return k("([] : "+ty.lean()+")", ty, env)
		}
	case *ast.CallExpr:
		return f.call(e, env, func(terms []string, tys []rtype, e2 *renv) string {
			if len(terms) != 1 {
				f.die(e.Pos(), "call with %d results used as a value", len(terms))
			}
			return k(terms[0], tys[0], e2)
		})
	case *ast.BinaryExpr:
		return f.cond(e, env, func(e2 *renv) string { return k("true", rtype{k: rBool}, e2) },
			func(e2 *renv) string { return k("false", rtype{k: rBool}, e2) })
	}
	f.die(x.Pos(), "expression %s", exprStr(x))
	return ""
}

// &T{…}: every field value is evaluated (dereferences), the result is the cause of the Err field,
// with the Name of an ArgumentError
func (f *rfn) errWrapper(lit *ast.CompositeLit, env *renv, k func(term string, unset bool, env *renv) string) string {
	t := f.g.info.TypeOf(lit)
	n, ok := t.(*types.Named)
	if !ok || !strings.HasSuffix(n.Obj().Name(), "Error") {
		f.die(lit.Pos(), "composite literal of type %s", t.String())
	}
	isArg := n.Obj().Name() == "ArgumentError"
	cause, arg := "", ""
	var step func(i int, e *renv) string
	step = func(i int, e *renv) string {
		if i == len(lit.Elts) {
			if cause == "" {
				return k("", true, e)
			}
			if isArg {
				return k("{ "+rparen(cause)+" with arg := "+arg+" }", false, e)
			}
			return k(cause, false, e)
		}
		kv, ok := lit.Elts[i].(*ast.KeyValueExpr)
		if !ok {
			f.die(lit.Elts[i].Pos(), "positional field in an error literal")
		}
		name := kv.Key.(*ast.Ident).Name
		return f.expr(kv.Value, e, func(v string, vt rtype, e2 *renv) string {
			if name == "Err" {
				if vt.k != rErrV {
					f.die(kv.Value.Pos(), "cause of the wrapper is not known to be non-nil")
				}
				cause = v
			}
			if name == "Name" && isArg {
				if _, ok := kv.Value.(*ast.BasicLit); !ok {
					f.die(kv.Value.Pos(), "ArgumentError.Name is not a literal")
				}
				arg = v
			}
			return step(i+1, e2)
		})
	}
	if isArg {
		arg = "\"\""
	}
	return step(0, env)
}

func (f *rfn) isHeapCall(c *ast.CallExpr) bool {
	key := f.g.calleeKey(c)
	if key == "" {
		return false
	}
	return !strings.HasPrefix(key, "set.") || key == "set.getValue"
}

func (f *rfn) exprs(xs []ast.Expr, env *renv, k func(ts []string, tys []rtype, env *renv) string) string {
	var ts []string
	var tys []rtype
	var step func(i int, e *renv) string
	step = func(i int, e *renv) string {
		if i == len(xs) {
			return k(ts, tys, e)
		}
		return f.expr(xs[i], e, func(t string, ty rtype, e2 *renv) string {
			ts = append(ts, t)
			tys = append(tys, ty)
			return step(i+1, e2)
		})
	}
	return step(0, env)
}

func (f *rfn) call(c *ast.CallExpr, env *renv, k func(terms []string, tys []rtype, env *renv) string) string {
	g := f.g
	one := func(t string, ty rtype, e *renv) string { return k([]string{t}, []rtype{ty}, e) }
	if id, ok := c.Fun.(*ast.Ident); ok {
		switch id.Name {
		case "len":
			return f.expr(c.Args[0], env, func(t string, ty rtype, e *renv) string {
				switch ty.k {
				case rMap:
					return one("GoMap.len "+rparen(t), rtype{k: rInt}, e)
				case rSlice:
					return one("("+rparen(t)+".length : Int)", rtype{k: rInt}, e)
				}
				f.die(c.Pos(), "len of a %s", ty.lean())
				return ""
			})
		case "make":
			ty := g.rtypeOf(g.info.TypeOf(c), c.Pos(), f.key)
			if ty.k == rMap && len(c.Args) == 1 {
				return one("([] : "+ty.lean()+")", ty, env)
			}
		case "append":
			if len(c.Args) == 2 && !c.Ellipsis.IsValid() {
				return f.expr(c.Args[0], env, func(s string, sty rtype, e *renv) string {
					return f.expr(c.Args[1], e, func(v string, vty rtype, e2 *renv) string {
						if sty.k != rSlice {
							f.die(c.Pos(), "append to a %s", sty.lean())
						}
						return one(rparen(s)+" ++ ["+f.asResult(v, vty, *sty.elem, c.Pos())+"]", sty, e2)
					})
				})
			}
		}
		f.die(c.Pos(), "call of %s", id.Name)
	}
	sel, ok := c.Fun.(*ast.SelectorExpr)
	if !ok {
		f.die(c.Pos(), "call of %s", exprStr(c.Fun))
	}
	key := g.calleeKey(c)
	switch {
	case key == "":
		f.die(c.Pos(), "call of %s", exprStr(c.Fun))
	case regErrorf[key]:
		if len(c.Args) != 1 {
			f.die(c.Pos(), "errorf with %d arguments", len(c.Args))
		}
		return f.expr(c.Args[0], env, one)
	case regInlined[key]:
		return f.cond(c, env, func(e *renv) string { return one("true", rtype{k: rBool}, e) },
			func(e *renv) string { return one("false", rtype{k: rBool}, e) })
	case strings.HasPrefix(key, "set."):
		m := key[4:]
		return f.expr(sel.X, env, func(mt string, mty rtype, e *renv) string {
			if mty.k != rMap {
				f.die(c.Pos(), "set method on a %s", mty.lean())
			}
			switch m {
			case "getValues":
				if len(c.Args) != 0 {
					break
				}
				return one("GoMap.values "+rparen(mt), rtype{k: rSlice, elem: mty.elem}, e)
			case "entries":
				return one(mt, mty, e)
			case "hasKey", "verifyKeyUnique", "size", "getValue":
				sg := g.sigs[key]
				if sg == nil || sg.writer {
					f.die(c.Pos(), "set.%s is not available as a pure translated method", m)
				}
				return f.exprs(c.Args, e, func(as []string, _ []rtype, e2 *renv) string {
					t := sg.lean + " " + rparen(mt)
					for _, a := range as {
						t += " " + rparen(a)
					}
					switch m {
					case "hasKey":
						return one(t, rtype{k: rBool}, e2)
					case "size":
						return one(t, rtype{k: rInt}, e2)
					case "verifyKeyUnique":
						return one(t, rtype{k: rErr}, e2)
					}
					// getValue: (value or the zero value, error)
					if mty.elem.k != rAddr {
						f.die(c.Pos(), "getValue on a registry whose values are not pointers")
					}
					p := f.fresh("p")
					vt := rtype{k: rPtr, heap: mty.elem.heap}
					return e2.ind() + "let " + p + " := " + t + "\n" +
						k([]string{p + ".1", p + ".2"}, []rtype{vt, {k: rErr}}, e2)
				})
			}
			f.die(c.Pos(), "set.%s used as a value", m)
			return ""
		})
	}
	// a translated method of a heap struct
	sg := g.sigs[key]
	if sg == nil {
		f.die(c.Pos(), "call of %s, which is not a translated method (or is defined later)", key)
	}
	if f.sig.isSet {
		f.die(c.Pos(), "heap method called from a set method")
	}
	if len(sg.ords) != 0 {
		f.die(c.Pos(), "call of %s, whose result depends on a map iteration order", key)
	}
	return f.expr(sel.X, env, func(rt string, rty rtype, e *renv) string {
		return f.toAddr(rt, rty, e, c.Pos(), func(a string, e1 *renv) string {
			return f.exprs(c.Args, e1, func(as []string, atys []rtype, e2 *renv) string {
				t := sg.lean + " " + e2.heap + " " + rparen(a)
				for i, av := range as {
					t += " " + f.asResult(av, atys[i], sg.params[i+1].t, c.Args[i].Pos())
				}
				var names []string
				var tys []rtype
				e3 := e2.deeper()
				if sg.writer {
					h2 := f.fresh("h")
					names = append(names, h2)
					e3.heap = h2
					e3.cache = map[string]string{}
				}
				var outs []string
				for _, r := range sg.results {
					v := f.fresh("v")
					names = append(names, v)
					outs = append(outs, v)
					tys = append(tys, r)
				}
				pat := "()"
				if len(names) == 1 {
					pat = names[0]
				} else if len(names) > 1 {
					pat = "(" + strings.Join(names, ", ") + ")"
				}
				return e2.ind() + "match " + t + " with\n" + e2.ind() + "| .panic => .panic\n" + e2.ind() + "| .dangling => .dangling\n" +
					e2.ind() + "| .val " + pat + " =>\n" + k(outs, tys, e3)
			})
		})
	})
}

// a call in statement position
func (f *rfn) callStmt(c *ast.CallExpr, env *renv, k rcont) string {
	g := f.g
	if id, ok := c.Fun.(*ast.Ident); ok && id.Name == "delete" && len(c.Args) == 2 {
		return f.expr(c.Args[1], env, func(key string, _ rtype, e *renv) string {
			return f.updateMapVar(c.Args[0], e, func(m string) string { return "GoMap.delete " + rparen(m) + " " + rparen(key) }, k)
		})
	}
	key := g.calleeKey(c)
	sel, _ := c.Fun.(*ast.SelectorExpr)
	if strings.HasPrefix(key, "set.") && g.writer[key] {
		sg := g.sigs[key]
		if sg == nil {
			f.die(c.Pos(), "%s is not translated (or is defined later)", key)
		}
		app := func(m string, as []string, atys []rtype, mty rtype) string {
			t := sg.lean + " " + rparen(m)
			for i, a := range as {
				// the value argument of add / modifyKey: pointer values must be known non-nil
				if sg.params[i+1].t.k == rTParam && sg.params[i+1].t.name == "V" && mty.elem.k == rAddr && atys[i].k != rAddr {
					f.die(c.Args[i].Pos(), "registry value %s is not known to be non-nil", exprStr(c.Args[i]))
				}
				t += " " + rparen(a)
			}
			return t
		}
		// on the receiver's own map (set methods)
		if id, ok := sel.X.(*ast.Ident); ok && f.sig.isSet && id.Name == f.recv {
			return f.exprs(c.Args, env, func(as []string, atys []rtype, e *renv) string {
				b := e.byObj(f.objOf(id))
				name := f.fresh(id.Name)
				e2 := e.bindObj(rbind{obj: b.obj, goName: b.goName, term: name, t: b.t})
				return e.ind() + "let " + name + " := " + app(b.term, as, atys, b.t) + "\n" + k(e2)
			})
		}
		// on a registry field of a heap object
		fs, ok := sel.X.(*ast.SelectorExpr)
		if !ok {
			f.die(c.Pos(), "mutating set call on %s", exprStr(sel.X))
		}
		hs, ok := f.heapOfPtrExpr(fs.X)
		if !ok {
			f.die(c.Pos(), "mutating set call on %s", exprStr(sel.X))
		}
		if _, ok := regHeap[hs].fields[fs.Sel.Name]; !ok {
			f.die(c.Pos(), "registry %s.%s is not part of the heap model", hs, fs.Sel.Name)
		}
		mty := g.rtypeOf(g.info.TypeOf(fs), fs.Pos(), f.key)
		return f.expr(fs.X, env, func(xt string, xty rtype, e *renv) string {
			return f.toAddr(xt, xty, e, c.Pos(), func(a string, e1 *renv) string {
				return f.exprs(c.Args, e1, func(as []string, atys []rtype, e2 *renv) string {
					// resolve pointer arguments that are known non-nil
					for i := range as {
						if atys[i].k == rPtr {
							if nn, ok := e2.nonnil[as[i]]; ok {
								as[i], atys[i] = nn, rtype{k: rAddr, heap: atys[i].heap}
							}
						}
					}
					return f.writeRec(hs, a, fs.Sel.Name, func(r string) string {
						return app(r+"."+fs.Sel.Name, as, atys, mty)
					}, e2, k)
				})
			})
		})
	}
	if strings.HasPrefix(key, "set.") {
		f.die(c.Pos(), "result of %s discarded", key)
	}
	return f.call(c, env, func(_ []string, _ []rtype, e *renv) string { return k(e) })
}

// ---- conditions ----

func (f *rfn) cond(x ast.Expr, env *renv, kT, kF rcont) string {
	switch e := x.(type) {
	case *ast.ParenExpr:
		return f.cond(e.X, env, kT, kF)
	case *ast.UnaryExpr:
		if e.Op == token.NOT {
			return f.cond(e.X, env, kF, kT)
		}
	case *ast.BinaryExpr:
		switch e.Op {
		case token.LAND:
			return f.cond(e.X, env, func(e2 *renv) string { return f.cond(e.Y, e2, kT, kF) }, kF)
		case token.LOR:
			return f.cond(e.X, env, kT, func(e2 *renv) string { return f.cond(e.Y, e2, kT, kF) })
		case token.EQL, token.NEQ:
			kEq, kNe := kT, kF
			if e.Op == token.NEQ {
				kEq, kNe = kF, kT
			}
			other := e.X
			if isNilIdent(e.X) {
				other = e.Y
			}
			if isNilIdent(e.X) || isNilIdent(e.Y) {
				return f.expr(other, env, func(t string, ty rtype, e1 *renv) string {
					id, _ := other.(*ast.Ident)
					switch ty.k {
					case rAddr, rErrV:
						return kNe(e1)
					case rPtr, rErr:
						if a, ok := e1.nonnil[t]; ok && ty.k == rPtr {
							_ = a
							return kNe(e1)
						}
						base, nk := "a", rAddr
						if ty.k == rErr {
							base, nk = "e", rErrV
						}
						a := f.fresh(base)
						d := e1.deeper()
						eS := d.deeper()
						if ty.k == rPtr {
							eS.nonnil[t] = a
						}
						if id != nil {
							eS = eS.bindObj(rbind{obj: f.objOf(id), goName: id.Name, term: a, t: rtype{k: nk, heap: ty.heap}})
						}
						return e1.ind() + "match " + t + " with\n" + e1.ind() + "| none =>\n" + rblock(d, kEq(d.deeper())) + "\n" +
							e1.ind() + "| some " + a + " =>\n" + kNe(eS)
					}
					f.die(e.Pos(), "comparison of a %s with nil", ty.lean())
					return ""
				})
			}
			return f.expr(e.X, env, func(a string, aty rtype, e1 *renv) string {
				return f.expr(e.Y, e1, func(b string, bty rtype, e2 *renv) string {
					if aty.lean() != bty.lean() || aty.k == rPtr || aty.k == rMap || aty.k == rSlice || aty.k == rErr {
						f.die(e.Pos(), "comparison of a %s with a %s", aty.lean(), bty.lean())
					}
					return f.ite(rparen(a)+" = "+rparen(b), e2, kEq, kNe)
				})
			})
		case token.LEQ, token.LSS, token.GEQ, token.GTR:
			op := map[token.Token]string{token.LEQ: "≤", token.LSS: "<", token.GEQ: "≥", token.GTR: ">"}[e.Op]
			return f.expr(e.X, env, func(a string, aty rtype, e1 *renv) string {
				return f.expr(e.Y, e1, func(b string, bty rtype, e2 *renv) string {
					if aty.k != rInt || bty.k != rInt {
						f.die(e.Pos(), "order comparison of a %s with a %s", aty.lean(), bty.lean())
					}
					return f.ite(rparen(a)+" "+op+" "+rparen(b), e2, kT, kF)
				})
			})
		}
	case *ast.CallExpr:
		key := f.g.calleeKey(e)
		if regInlined[key] {
			fd := f.g.decls[key]
			sel := e.Fun.(*ast.SelectorExpr)
			if len(fd.Body.List) != 1 || len(e.Args) != 0 {
				f.die(e.Pos(), "helper %s is not a single return", key)
			}
			rs, ok := fd.Body.List[0].(*ast.ReturnStmt)
			if !ok || len(rs.Results) != 1 {
				f.die(e.Pos(), "helper %s is not a single return", key)
			}
			recvId := fd.Recv.List[0].Names[0]
			return f.expr(sel.X, env, func(rt string, rty rtype, e1 *renv) string {
				return f.toAddr(rt, rty, e1, e.Pos(), func(a string, e2 *renv) string {
					outerVars := e2.vars
					inner := e2.clone()
					inner.vars = []rbind{{obj: f.g.info.Defs[recvId], goName: recvId.Name, term: a, t: rtype{k: rAddr, heap: rty.heap}}}
					back := func(k rcont) rcont {
						return func(e3 *renv) string {
							n := e3.clone()
							n.vars = outerVars
							return k(n)
						}
					}
					return f.cond(rs.Results[0], inner, back(kT), back(kF))
				})
			})
		}
	}
	return f.expr(x, env, func(t string, ty rtype, e *renv) string {
		if ty.k != rBool {
			f.die(x.Pos(), "condition of kind %s", ty.lean())
		}
		switch t {
		case "true":
			return kT(e)
		case "false":
			return kF(e)
		}
		return f.ite(rparen(t)+" = true", e, kT, kF)
	})
}

func (f *rfn) ite(c string, env *renv, kT, kF rcont) string {
	d := env.deeper()
	return env.ind() + "if " + c + " then\n" + rblock(d, kT(d.deeper())) + "\n" + env.ind() + "else\n" + kF(d)
}

// ---- loops ----

func (f *rfn) loopNext(env *renv) string {
	l := env.loop
	t := l.name
	if !f.sig.isSet {
		t += " " + env.heap
	}
	for _, lv := range l.vars {
		b := env.byObj(lv.obj)
		t += " " + f.asResult(b.term, b.t, lv.t, l0)
	}
	for _, o := range f.sig.ords {
		t += " " + o.term
	}
	return env.ind() + t + " rest_"
}

func (f *rfn) rangeStmt(s *ast.RangeStmt, env *renv, k rcont) string {
	g := f.g
	if env.loop != nil {
		f.die(s.Pos(), "nested loop")
	}
	if s.Tok != token.DEFINE {
		f.die(s.Pos(), "range without :=")
	}
	ident := func(x ast.Expr) *ast.Ident {
		if x == nil {
			return nil
		}
		id, ok := x.(*ast.Ident)
		if !ok {
			f.die(x.Pos(), "range variable %s", exprStr(x))
		}
		if id.Name == "_" {
			return nil
		}
		return id
	}
	kid, vid := ident(s.Key), ident(s.Value)
	// the ranged registry must not be written by the body (snapshot semantics), except for the
	// sanctioned idiom `for k := range m { delete(m, k) }`
	isClearIdiom := false
	if len(s.Body.List) == 1 && vid == nil && kid != nil {
		if es, ok := s.Body.List[0].(*ast.ExprStmt); ok {
			if c, ok := es.X.(*ast.CallExpr); ok {
				if id, ok := c.Fun.(*ast.Ident); ok && id.Name == "delete" && len(c.Args) == 2 &&
					exprStr(c.Args[0]) == exprStr(s.X) && exprStr(c.Args[1]) == kid.Name {
					isClearIdiom = true
				}
			}
		}
	}
	rangedField := ""
	if c, ok := s.X.(*ast.CallExpr); ok {
		if sel, ok := c.Fun.(*ast.SelectorExpr); ok {
			if fs, ok := sel.X.(*ast.SelectorExpr); ok {
				rangedField = fs.Sel.Name
			}
		}
	}
	if !isClearIdiom {
		ast.Inspect(s.Body, func(n ast.Node) bool {
			switch c := n.(type) {
			case *ast.CallExpr:
				if id, ok := c.Fun.(*ast.Ident); ok && id.Name == "delete" {
					f.die(c.Pos(), "delete inside a range loop")
				}
				if sel, ok := c.Fun.(*ast.SelectorExpr); ok && rangedField != "" {
					if fs, ok := sel.X.(*ast.SelectorExpr); ok && fs.Sel.Name == rangedField && g.writer[g.calleeKey(c)] {
						f.die(c.Pos(), "the loop body writes the registry %s it ranges over", rangedField)
					}
				}
			case *ast.AssignStmt:
				for _, l := range c.Lhs {
					if ix, ok := l.(*ast.IndexExpr); ok && exprStr(ix.X) == exprStr(s.X) {
						f.die(c.Pos(), "the loop body writes the map it ranges over")
					}
				}
			}
			return true
		})
	}
	return f.expr(s.X, env, func(xt string, xty rtype, e *renv) string {
		var list string
		var pat string
		var binds []rbind
		elemT := ""
		switch xty.k {
		case rSlice:
			if kid != nil {
				f.die(s.Pos(), "index variable of a slice loop")
			}
			list = xt
			et := *xty.elem
			if oi, ok := f.ordOf[s]; ok {
				list = f.sig.ords[oi].term
				et = *f.sig.ords[oi].t.elem
			}
			elemT = et.leanA()
			pat = "_"
			if vid != nil {
				pat = f.fresh(vid.Name)
				binds = append(binds, rbind{obj: f.objOf(vid), goName: vid.Name, term: pat, t: et})
			}
		case rMap:
			if _, ok := f.ordOf[s]; ok {
				f.die(s.Pos(), "order-dependent loop over map entries")
			}
			switch {
			case kid != nil && vid != nil:
				list = xt
				elemT = "(" + xty.key.leanA() + " × " + xty.elem.leanA() + ")"
				kn, vn := f.fresh(kid.Name), f.fresh(vid.Name)
				pat = "(" + kn + ", " + vn + ")"
				binds = append(binds, rbind{obj: f.objOf(kid), goName: kid.Name, term: kn, t: *xty.key},
					rbind{obj: f.objOf(vid), goName: vid.Name, term: vn, t: *xty.elem})
			case kid != nil:
				list = "GoMap.keys " + rparen(xt)
				elemT = xty.key.leanA()
				pat = f.fresh(kid.Name)
				binds = append(binds, rbind{obj: f.objOf(kid), goName: kid.Name, term: pat, t: *xty.key})
			case vid != nil:
				list = "GoMap.values " + rparen(xt)
				elemT = xty.elem.leanA()
				pat = f.fresh(vid.Name)
				binds = append(binds, rbind{obj: f.objOf(vid), goName: vid.Name, term: pat, t: *xty.elem})
			default:
				f.die(s.Pos(), "range without variables")
			}
		default:
			f.die(s.Pos(), "range over a %s", xty.lean())
		}
		f.loops++
		n := f.loops
		loopName := fmt.Sprintf("%s_loop%d", f.sig.lean, n)
		afterName := fmt.Sprintf("%s_after%d", f.sig.lean, n)
		// the variables visible at the loop become parameters of both definitions
		var passed []rbind
		for _, v := range e.vars {
			if v.unset || v.zero {
				continue
			}
			passed = append(passed, v)
		}
		mkEnv := func() (*renv, string, []rbind) {
			ne := &renv{heap: "h", cache: map[string]string{}, nonnil: map[string]string{}}
			var ps []string
			if !f.sig.isSet {
				ps = append(ps, "(h : H)")
			}
			var lvars []rbind
			for _, v := range e.vars {
				if v.unset || v.zero {
					ne.vars = append(ne.vars, v)
					continue
				}
				nv := v
				nv.term = f.fresh(v.goName)
				ne.vars = append(ne.vars, nv)
				lvars = append(lvars, nv)
				ps = append(ps, "("+nv.term+" : "+nv.t.lean()+")")
			}
			for _, o := range f.sig.ords {
				ps = append(ps, "("+o.term+" : "+o.t.lean()+")")
			}
			return ne, strings.Join(ps, " "), lvars
		}
		// after the loop
		ae, aps, _ := mkEnv()
		afterBody := k(ae.deeper())
		f.defs = append(f.defs, "def "+afterName+" "+f.tparams+aps+" : "+f.resultType()+" :=\n"+afterBody+"\n\n")
		// the loop
		le, lps, lvars := mkEnv()
		callAfter := afterName
		if !f.sig.isSet {
			callAfter += " h"
		}
		for _, v := range lvars {
			callAfter += " " + v.term
		}
		for _, o := range f.sig.ords {
			callAfter += " " + o.term
		}
		le.loop = &rloop{name: loopName, vars: lvars}
		be := le.deeper().deeper()
		for _, b := range binds {
			be = be.bindObj(b)
		}
		nOuter := len(be.vars)
		body := f.stmts(s.Body.List, be, func(e2 *renv) string {
			e3 := e2.clone()
			if len(e3.vars) > nOuter {
				e3.vars = e3.vars[:nOuter]
			}
			return f.loopNext(e3)
		})
		f.defs = append(f.defs, "def "+loopName+" "+f.tparams+lps+" : List "+elemT+" → "+f.resultType()+"\n"+
			"  | [] => "+callAfter+"\n  | "+pat+" :: rest_ =>\n"+body+"\n\n")
		// the call
		t := loopName
		if !f.sig.isSet {
			t += " " + e.heap
		}
		for _, v := range passed {
			t += " " + rparen(v.term)
		}
		for _, o := range f.sig.ords {
			t += " " + o.term
		}
		return e.ind() + t + " " + rparen(list)
	})
}
