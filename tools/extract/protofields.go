package main

// Tie B for C12: which fields of the protobuf schema the saver WRITES and which the loader
// READS, regenerated from saver.go / loader.go and the generated schema package on every run.
//
//	Acme.Gen.schemaFields : every field of every message of proto/gen/go/acmelib/v1
//	Acme.Gen.savedFields  : (message, field) assigned / appended / set in a literal in saver.go
//	Acme.Gen.loadedFields : (message, field) read in loader.go (getter call, direct field read,
//	                        type switch / assertion on a oneof field)
//
// A field that is saved but never loaded (or the reverse) cannot survive a save → load round
// trip; the Lean side proves the three lists equal up to a hand-classified exception table.

import (
	"fmt"
	"go/ast"
	"go/token"
	"go/types"
	"os"
	"path/filepath"
	"sort"
	"strings"

	"golang.org/x/tools/go/packages"
)

func init() { extraWriters = append(extraWriters, writeProtoFields) }

func structOf(t types.Type, pkgSuffix string) (string, *types.Struct) {
	for {
		p, ok := t.(*types.Pointer)
		if !ok {
			break
		}
		t = p.Elem()
	}
	n, ok := t.(*types.Named)
	if !ok || n.Obj().Pkg() == nil || !strings.HasSuffix(n.Obj().Pkg().Path(), pkgSuffix) {
		return "", nil
	}
	st, ok := n.Underlying().(*types.Struct)
	if !ok {
		return "", nil
	}
	return n.Obj().Name(), st
}

type pf struct{ msg, field string }

func writeProtoFields(out string, root, dbc *packages.Package) {
	writeFieldInventory(out, root, "proto/gen/go/acmelib/v1", "saver.go", "loader.go", "ProtoFields.lean",
		"schemaFields", "savedFields", "loadedFields")
	// C11 / C10: the DBC document the exporter builds and the importer reads
	writeFieldInventory(out, root, "acmelib/dbc", "exporter.go", "importer.go", "DbcFields.lean",
		"dbcAstFields", "exportedFields", "importedFields")
}

func writeFieldInventory(out string, root *packages.Package, pkgSuffix, writerFile, readerFile, outFile, schemaName, savedName, loadedName string) {
	protoMsgOf := func(t types.Type) (string, *types.Struct) { return structOf(t, pkgSuffix) }
	info := root.TypesInfo
	saved := map[pf]bool{}
	loaded := map[pf]bool{}
	schema := map[pf]bool{}

	// the schema package, through the types the two files use
	var protoPkg *types.Package
	for _, imp := range root.Types.Imports() {
		if strings.HasSuffix(imp.Path(), pkgSuffix) {
			protoPkg = imp
		}
	}
	if protoPkg == nil {
		fmt.Fprintln(os.Stderr, "extract/protofields: package "+pkgSuffix+" not imported by package acmelib")
		os.Exit(1)
	}
	for _, name := range protoPkg.Scope().Names() {
		tn, ok := protoPkg.Scope().Lookup(name).(*types.TypeName)
		if !ok {
			continue
		}
		st, ok := tn.Type().Underlying().(*types.Struct)
		if !ok {
			continue
		}
		// messages implement ProtoReflect; oneof wrappers (Signal_Standard …) have one field and no such method
		isMsg := false
		ms := types.NewMethodSet(types.NewPointer(tn.Type()))
		for i := 0; i < ms.Len(); i++ {
			if ms.At(i).Obj().Name() == "ProtoReflect" {
				isMsg = true
			}
		}
		for i := 0; i < st.NumFields(); i++ {
			f := st.Field(i)
			if !f.Exported() {
				continue
			}
			if isMsg {
				schema[pf{name, f.Name()}] = true
			} else {
				schema[pf{name, f.Name()}] = true // oneof wrapper: its single payload field
			}
		}
	}

	fieldOf := func(sel *ast.SelectorExpr) (pf, bool) {
		s, ok := info.Selections[sel]
		if !ok || s.Kind() != types.FieldVal {
			return pf{}, false
		}
		tv, ok := info.Types[sel.X]
		if !ok {
			return pf{}, false
		}
		name, _ := protoMsgOf(tv.Type)
		if name == "" {
			return pf{}, false
		}
		return pf{name, sel.Sel.Name}, true
	}

	for _, f := range root.Syntax {
		base := filepath.Base(fset.Position(f.Pos()).Filename)
		if base != writerFile && base != readerFile {
			continue
		}
		isSaver := base == writerFile
		written := map[*ast.SelectorExpr]bool{}
		ast.Inspect(f, func(n ast.Node) bool {
			switch x := n.(type) {
			case *ast.AssignStmt:
				for _, l := range x.Lhs {
					if sel, ok := l.(*ast.SelectorExpr); ok {
						if k, ok := fieldOf(sel); ok {
							written[sel] = true
							if isSaver {
								saved[k] = true
							}
						}
					}
				}
			case *ast.CompositeLit:
				tv, ok := info.Types[x]
				if !ok {
					return true
				}
				name, _ := protoMsgOf(tv.Type)
				if name == "" {
					return true
				}
				for _, e := range x.Elts {
					if kv, ok := e.(*ast.KeyValueExpr); ok {
						if id, ok := kv.Key.(*ast.Ident); ok && isSaver {
							saved[pf{name, id.Name}] = true
						}
					}
				}
			}
			return true
		})
		if isSaver {
			continue
		}
		ast.Inspect(f, func(n ast.Node) bool {
			switch x := n.(type) {
			case *ast.CallExpr:
				// x.GetField()
				if sel, ok := x.Fun.(*ast.SelectorExpr); ok && len(x.Args) == 0 && strings.HasPrefix(sel.Sel.Name, "Get") {
					if tv, ok := info.Types[sel.X]; ok {
						if name, _ := protoMsgOf(tv.Type); name != "" {
							loaded[pf{name, strings.TrimPrefix(sel.Sel.Name, "Get")}] = true
						}
					}
				}
			case *ast.SelectorExpr:
				if written[x] {
					return true
				}
				if k, ok := fieldOf(x); ok {
					loaded[k] = true
				}
			}
			return true
		})
	}

	emit := func(b *strings.Builder, name, doc string, m map[pf]bool) {
		var xs []pf
		for k := range m {
			xs = append(xs, k)
		}
		sort.Slice(xs, func(i, j int) bool {
			if xs[i].msg != xs[j].msg {
				return xs[i].msg < xs[j].msg
			}
			return xs[i].field < xs[j].field
		})
		b.WriteString("/-- " + doc + " -/\n")
		b.WriteString("def " + name + " : List (String × String) := [\n")
		for i, k := range xs {
			b.WriteString(fmt.Sprintf("  (%s, %s)", leanStr(k.msg), leanStr(k.field)))
			if i+1 < len(xs) {
				b.WriteString(",")
			}
			b.WriteString("\n")
		}
		b.WriteString("]\n\n")
	}
	var b strings.Builder
	b.WriteString("/- GENERATED by /verif/tools/extract from /repo — do not edit. -/\n")
	b.WriteString("namespace Acme.Gen\n\n")
	emit(&b, schemaName, "every exported field of every struct of package "+pkgSuffix, schema)
	emit(&b, savedName, "(type, field) written in "+writerFile+": assignment, append-assignment or composite-literal key", saved)
	emit(&b, loadedName, "(type, field) read in "+readerFile+": getter call, direct field read, oneof type switch / assertion", loaded)
	b.WriteString("end Acme.Gen\n")
	_ = token.NoPos
	if err := os.WriteFile(filepath.Join(out, outFile), []byte(b.String()), 0o644); err != nil {
		panic(err)
	}
}
