// The CAN-ID builder (canid_builder.go) and (*Message).GetCANID (message.go), property C14, as the
// kernels K.newCANIDBuilderOp, K.calculate, K.calculatePartials, K.insertOperation,
// K.removeOperation, K.removeAllOperations, K.useMessagePriority / useMessageID / useNodeID /
// useCAN2A / useBitMask and K.getCANID, proved equal to the functions of Acme.Core.CanId
// (Acme/Proofs/GenKernelsCanId.lean).  calculateOp is kernel K.calculateOp (kernels.go).
//
// Constructs used here (generic parts in kernels.go / kernels_state.go):
//
//	b.operations                  ↦ `ops : List Acme.GoSem.KOp` (kind as the Go constant VALUE, from, len),
//	                              a state slice for the mutating methods
//	b.calculateOp(op, ..)         a call of an earlier kernel whose parameterised reads (`op.kind`, ..)
//	                              are resolved as PROJECTIONS of the caller's range variable
//	newCANIDBuilderOp(k, f, l)    itself a kernel: `&CANIDBuilderOp{kind: k, from: f, len: l}` ↦ the record
//	xs := []CANID{} ; xs = append(xs, e)   a local list of scalars (↦ List (BitVec 32))
//	b.operations = slices.Insert(b.operations, i, op) / slices.Delete(b.operations, i, j) /
//	    append(b.operations, op)  (sliceOpsPanic) ↦ GoSem.sliceInsert / sliceDelete, which are
//	                              `Res.panic` out of range exactly where the Go functions panic
//	                              (Insert: unless 0 ≤ i ≤ len; Delete: unless 0 ≤ i ≤ j ≤ len), and ++
//	return &ArgumentError{Name: "x", Err: ErrX}   (errLean) ↦ `some (Cause.ErrX, "x")`: the NAME of the
//	                              argument is kept (the model's `Err.outOfBounds arg` has it)
//	return b                      (fluent) a method that returns its receiver has no result besides
//	                              the state
//	nodeInt := m.senderNodeInt    an alias (kernels_value.go); `nodeInt.parentBus.canIDBuilder.Calculate(..)`
//	                              is the call of kernel K.calculate whose read `b.operations` is resolved
//	                              as `nodeInt.parentBus.canIDBuilder.operations` ↦ the parameter `ops`
//	                              (a via-parameter: it only occurs through the callee)
package main

import (
	"go/ast"
	"go/token"
	"go/types"
	"strings"
)

const kopLean = "Acme.GoSem.KOp"

var builderOps = kSlice{
	kField: kField{"b.operations", "ops"},
	elem:   kopLean,
	proj:   map[string]string{"kind": "kind", "from": "from_", "len": "len"},
}

var kopStruct = map[string]kStructSpec{"CANIDBuilderOp": {lean: kopLean, fields: map[string]string{
	"kind": "kind := %", "from": "from_ := %", "len": "len := %"}}}

var canidTypes = map[string]kType{
	"*CANIDBuilderOp": {k: kRec, elem: kopLean},
	"[]CANID":         {k: kList, elem: "BitVec 32"},
	"string":          {k: kStr},
	"untyped string":  {k: kStr},
}

func builderState() *kState { return &kState{slice: "b.operations"} }

func useSpec(goName, lean string) kernelSpec {
	return kernelSpec{pkg: "acmelib", file: "canid_builder.go", goName: "CANIDBuilder." + goName, lean: lean,
		slices: []kSlice{builderOps}, goTypes: canidTypes, state: builderState(), sliceOpsPanic: true, fluent: true,
		model: "ops ++ [the documented operation]"}
}

var canidKernelSpecs = []kernelSpec{
	{pkg: "acmelib", file: "canid_builder.go", goName: "newCANIDBuilderOp", lean: "newCANIDBuilderOp",
		goTypes: canidTypes, structs: kopStruct, model: "the record ⟨kind, from, len⟩"},
	{pkg: "acmelib", file: "canid_builder.go", goName: "CANIDBuilder.Calculate", lean: "calculate",
		slices: []kSlice{builderOps}, model: "Acme.CanId.calculate"},
	{pkg: "acmelib", file: "canid_builder.go", goName: "CANIDBuilder.CalculatePartials", lean: "calculatePartials",
		slices: []kSlice{builderOps}, goTypes: canidTypes, model: "Acme.CanId.partials"},
	{pkg: "acmelib", file: "canid_builder.go", goName: "CANIDBuilder.InsertOperation", lean: "insertOperation",
		slices: []kSlice{builderOps}, goTypes: canidTypes, state: builderState(), sliceOpsPanic: true,
		errLean: "(Cause × String)", model: "Acme.CanId.insertOp"},
	{pkg: "acmelib", file: "canid_builder.go", goName: "CANIDBuilder.RemoveOperation", lean: "removeOperation",
		slices: []kSlice{builderOps}, goTypes: canidTypes, state: builderState(), sliceOpsPanic: true,
		errLean: "(Cause × String)", model: "Acme.CanId.removeOp"},
	{pkg: "acmelib", file: "canid_builder.go", goName: "CANIDBuilder.RemoveAllOperations", lean: "removeAllOperations",
		slices: []kSlice{builderOps}, state: builderState(), model: "[]"},
	useSpec("UseMessagePriority", "useMessagePriority"),
	useSpec("UseMessageID", "useMessageID"),
	useSpec("UseNodeID", "useNodeID"),
	useSpec("UseCAN2A", "useCAN2A"),
	useSpec("UseBitMask", "useBitMask"),
	{pkg: "acmelib", file: "message.go", goName: "Message.GetCANID", lean: "getCANID",
		fields: []kField{{"m.hasStaticCANID", "hasStatic"}, {"m.staticCANID", "static"}, {"m.id", "id"},
			{"m.priority", "priority"}, {"m.hasSenderNodeInt()", "hasSender"},
			{"nodeInt.hasParentBus()", "hasBus"}, {"nodeInt.node.id", "nodeID"}},
		vias:    []kVia{{"nodeInt.parentBus.canIDBuilder.operations", "ops", kType{k: kList, elem: kopLean}}},
		aliases: map[string]string{"nodeInt": "m.senderNodeInt"},
		model:   "Acme.CanId.getCANID"},
}

func init() {
	kernelSpecs = append(kernelSpecs, canidKernelSpecs...)
	stmtHooks = append(stmtHooks, (*ktr).canidStmt)
	errValueHook = (*ktr).namedErrValue
}

// namedErrValue: nil ↦ none; &T{Name: "x", Err: ErrX} ↦ some (Cause.ErrX, "x").
func (t *ktr) namedErrValue(e ast.Expr) string {
	if t.isNilIdent(e) {
		return "none"
	}
	if id, isID := e.(*ast.Ident); isID {
		if vn, isVar := t.vars[t.info.Uses[id]]; isVar && t.names[vn].k == kErrT {
			return vn
		}
	}
	u, ok := e.(*ast.UnaryExpr)
	if !ok || u.Op != token.AND {
		t.fail(e, "error result `%s` (in this kernel only nil or &T{Name: \"..\", Err: Err*})", exprStr(e))
	}
	cl, ok := u.X.(*ast.CompositeLit)
	if !ok {
		t.fail(e, "error result `%s` (in this kernel only nil or &T{Name: \"..\", Err: Err*})", exprStr(e))
	}
	causeOnly := !strings.Contains(t.spec.errLean, "×")
	cause, name, target := "", "", "\"\""
	for _, el := range cl.Elts {
		kv, ok := el.(*ast.KeyValueExpr)
		if !ok {
			t.fail(e, "error literal `%s` without field names", exprStr(e))
		}
		switch exprStr(kv.Key) {
		case "Err":
			if vid, isID := unparen(kv.Value).(*ast.Ident); isID {
				if vn, isVar := t.vars[t.info.Uses[vid]]; isVar && t.names[vn].k == kErrT && causeOnly {
					return vn // the cause of a callee, passed through
				}
			}
			if c, tg, ok := t.structCause(kv.Value); ok {
				cause, target = c, tg
				continue
			}
			id, isID := unparen(kv.Value).(*ast.Ident)
			if !isID {
				t.fail(kv, "error cause `%s` that is not a package-level sentinel Err*", exprStr(kv.Value))
			}
			v, isVar := t.info.Uses[id].(*types.Var)
			if !isVar || v.Pkg() == nil || v.Parent() != v.Pkg().Scope() || !strings.HasPrefix(id.Name, "Err") ||
				!types.Identical(v.Type(), types.Universe.Lookup("error").Type()) {
				t.fail(kv, "error cause `%s` that is not a package-level sentinel Err*", exprStr(kv.Value))
			}
			cause = t.regCause(id.Name)
		case "Name":
			if causeOnly {
				continue
			}
			tv := t.info.Types[kv.Value]
			if tv.Value == nil {
				t.fail(kv, "argument name `%s` that is not a string constant", exprStr(kv.Value))
			}
			name = t.constLit(tv.Value, kType{k: kStr}, kv.Value, false)
		default:
			if !causeOnly {
				t.fail(kv, "field `%s` of an error literal (only Name and Err)", exprStr(kv.Key))
			}
		}
	}
	if causeOnly {
		if cause == "" || target != "\"\"" {
			t.fail(e, "error literal `%s` without a sentinel `Err:`", exprStr(e))
		}
		return "(some " + cause + ")"
	}
	if cause == "" || name == "" {
		t.fail(e, "error literal `%s` without `Name:` and `Err:`", exprStr(e))
	}
	if strings.Count(t.spec.errLean, "×") == 2 {
		return "(some (" + cause + ", " + name + ", " + target + "))" // (cause, argument, target of the comparison)
	}
	if target != "\"\"" {
		t.fail(e, "error cause with a target in a kernel whose errors are (cause, argument name) pairs")
	}
	return "(some (" + cause + ", " + name + "))"
}

// structCause: `&ErrT{Target: "x"}` (a cause that is a struct with the name of the bound it was
// compared with) ↦ (Cause.ErrT, "x")
func (t *ktr) structCause(e ast.Expr) (string, string, bool) {
	u, ok := unparen(e).(*ast.UnaryExpr)
	if !ok || u.Op != token.AND {
		return "", "", false
	}
	cl, ok := u.X.(*ast.CompositeLit)
	if !ok {
		return "", "", false
	}
	nt, ok := types.Unalias(t.info.Types[cl].Type).(*types.Named)
	if !ok || !strings.HasPrefix(nt.Obj().Name(), "Err") || len(cl.Elts) != 1 {
		t.fail(e, "error cause `%s` (only a sentinel Err* or &ErrT{Target: \"..\"})", exprStr(e))
	}
	kv, ok := cl.Elts[0].(*ast.KeyValueExpr)
	if !ok || exprStr(kv.Key) != "Target" {
		t.fail(e, "error cause `%s` (only a sentinel Err* or &ErrT{Target: \"..\"})", exprStr(e))
	}
	tv := t.info.Types[kv.Value]
	if tv.Value == nil {
		t.fail(kv, "target `%s` that is not a string constant", exprStr(kv.Value))
	}
	return t.regCause(nt.Obj().Name()), t.constLit(tv.Value, kType{k: kStr}, kv.Value, false), true
}

// canidStmt: the statement forms listed in the header.
func (t *ktr) canidStmt(s ast.Stmt) ([]kStmt, bool) {
	switch x := s.(type) {
	case *ast.ReturnStmt:
		// return b (the receiver) in a fluent method
		if t.spec.fluent && t.spec.state != nil && len(x.Results) == 1 && len(t.res) == 0 {
			id, ok := unparen(x.Results[0]).(*ast.Ident)
			if !ok || t.fd.Recv == nil || len(t.fd.Recv.List[0].Names) != 1 || t.info.Uses[id] != t.info.Defs[t.fd.Recv.List[0].Names[0]] {
				t.fail(x, "return of `%s` in a method marked as returning its receiver", exprStr(x.Results[0]))
			}
			f := t.fields[t.spec.state.slice]
			f.used = true
			return []kStmt{kRet{t.stateTuple("")}}, true
		}
	case *ast.AssignStmt:
		if len(x.Lhs) != 1 || len(x.Rhs) != 1 {
			return nil, false
		}
		// xs := []T{} for a scalar T of the type table
		if x.Tok == token.DEFINE {
			cl, ok := unparen(x.Rhs[0]).(*ast.CompositeLit)
			id, isID := x.Lhs[0].(*ast.Ident)
			if ok && isID && len(cl.Elts) == 0 && len(t.spec.goTypes) > 0 {
				if gt, listed := t.spec.goTypes[bareType(types.Unalias(t.info.Types[cl].Type))]; listed && gt.k == kList {
					if _, scalar := scalarElem(gt.elem); scalar {
						return []kStmt{kLet{t.declare(id, gt), "[]", gt, true}}, true
					}
				}
			}
			return nil, false
		}
		if x.Tok != token.ASSIGN {
			return nil, false
		}
		call, isCall := unparen(x.Rhs[0]).(*ast.CallExpr)
		if !isCall {
			return nil, false
		}
		fun := exprStr(call.Fun)
		// xs = append(xs, e) for a local list of scalars
		if id, ok := unparen(x.Lhs[0]).(*ast.Ident); ok {
			if name, isVar := t.vars[t.info.Uses[id]]; isVar && t.names[name].k == kList && t.names[name].elem != "Int" {
				if st, scalar := scalarElem(t.names[name].elem); scalar {
					if fun != "append" || len(call.Args) != 2 || call.Ellipsis.IsValid() || exprStr(call.Args[0]) != id.Name {
						t.fail(x, "assignment `%s` to a local slice (only xs = append(xs, e))", exprStr(x))
					}
					return []kStmt{kLet{name, "(" + name + " ++ [" + t.value(call.Args[1], st) + "])", t.names[name], false}}, true
				}
			}
		}
		// the state slice: append / slices.Insert / slices.Delete
		if t.spec.state == nil || !t.spec.sliceOpsPanic || exprStr(x.Lhs[0]) != t.spec.state.slice {
			return nil, false
		}
		lf := t.fields[t.spec.state.slice]
		lf.used = true
		self := func(e ast.Expr) {
			if exprStr(e) != t.spec.state.slice {
				t.fail(x, "`%s` of `%s` assigned to %s", fun, exprStr(e), t.spec.state.slice)
			}
		}
		elemValue := func(e ast.Expr) string {
			v, vty := t.expr(e)
			if (vty.k != kRec && vty.k != kElem) || vty.elem != lf.ty.elem {
				t.fail(e, "`%s` (a %s) put into %s", exprStr(e), vty, t.spec.state.slice)
			}
			return v
		}
		switch {
		case fun == "append" && len(call.Args) == 2 && !call.Ellipsis.IsValid():
			self(call.Args[0])
			return []kStmt{kLet{lf.f.name, "(" + lf.f.name + " ++ [" + elemValue(call.Args[1]) + "])", lf.ty, false}, kStruct{}}, true
		case fun == "slices.Insert" && len(call.Args) == 3 && !call.Ellipsis.IsValid():
			self(call.Args[0])
			i := t.value(call.Args[1], kType{k: kInt})
			return []kStmt{kBind{lf.f.name, "(Acme.GoSem.sliceInsert " + lf.f.name + " " + i + " " + elemValue(call.Args[2]) + ")", lf.ty}, kStruct{}}, true
		case fun == "slices.Delete" && len(call.Args) == 3:
			self(call.Args[0])
			i := t.value(call.Args[1], kType{k: kInt})
			j := t.value(call.Args[2], kType{k: kInt})
			return []kStmt{kBind{lf.f.name, "(Acme.GoSem.sliceDelete " + lf.f.name + " " + i + " " + j + ")", lf.ty}, kStruct{}}, true
		}
		return nil, false
	}
	return nil, false
}
