// Bst.lean: Lean definitions of the interval tree of /repo/internal/interval_bst.go, translated
// from the CURRENT source (go/ast + go/types) on every run ("translator, ninth stage", C19).
// Acme/Proofs/GenBst*.lean proves every generated definition equal to the hand model Acme.Avl.
//
// Idiom translated (a special-purpose translator for this file; it FAILS LOUDLY - exit status 1
// with file:line and the reason - on every construct outside the subset):
//
//	*node[T]        ↦ the generated inductive `Tree` (nil ↦ leaf; the constructor arguments are the
//	                  fields of `struct node` in declaration order; the field of the type-parameter
//	                  type T is flattened into one Int per method of its constraint interface)
//	T (an item)     ↦ one Int per method of the constraint (x.GetLow() ↦ x_low, ...)
//	int / bool      ↦ Int (unbounded) / Bool (conditions are decidable Props)
//	*IntervalBST[T] ↦ its fields, threaded: a method gets the fields it (transitively) reads or
//	                  writes as parameters `t_root` / `t_size` and returns the written ones
//	*[]T parameter  ↦ an in/out `List (Int × ... )`
//
// Pointers are executed SYMBOLICALLY on a heap of cells (see bcell): a variable or a field of
// pointer type holds a cell id, so aliases (`leftNode.right = n` followed by `n.updateHeight()`)
// behave as in Go.  A cell is closed (an opaque Lean term), known nil, open (its fields are
// known: the cell went through a `match`), or dead.  Reading or writing a field of a closed cell
// emits `match c with | .leaf => .panic | .node .. => ..`: a nil dereference that the Go code can
// perform is an explicit `Res.panic`.  When a tree is needed as a Lean value (call argument,
// result) the cell graph is read back; a cell reachable twice (sharing, a cycle) is a loud
// failure, so the result is a tree.  A call of a method that writes node fields CONSUMES the
// cells it is given (they are dead afterwards; a method without pointer result gives the updated
// receiver back into the same cell); a pointer returned by a method that writes nothing is a
// VIEW into its arguments: it may be read, never written, stored or passed to a writing method,
// and it dies with the first write below one of the cells it was taken from.
// Control flow is translated in continuation style: the code after an `if` is emitted in every
// branch that falls through; `for c { .. }` becomes an auxiliary structurally recursive
// definition `<f>_loopN` that contains the rest of the function.
package main

import (
	"fmt"
	"go/ast"
	"go/token"
	"go/types"
	"os"
	"path/filepath"
	"sort"
	"strings"

	"golang.org/x/tools/go/packages"
)

func init() { extraWriters = append(extraWriters, writeBst) }

const bstSrcFile = "interval_bst.go"

// functions that must be present and are translated
var bstWanted = []string{"updateHeight", "updateMax", "balanceFactor", "rotateRight", "rotateLeft",
	"findMin", "lessThan", "insertNode", "Insert", "deleteNode", "Delete", "Size", "IsEmpty",
	"intersectsNode", "Intersects", "inOrderTraversal", "GetAllIntervals", "checkOtherIntervals",
	"CanUpdateInterval", "Clear"}

// functions of the file that are deliberately not translated
var bstSkipped = map[string]string{
	"NewIntervalBST": "allocation of the empty tree (root nil, size 0): stated in Props/GenBst as the start of every history",
	"stringify":      "printing", "String": "printing",
}

const (
	bInt = iota
	bBool
	bItem
	bPtr
	bList
)

type bval struct {
	k      int
	s      string   // bInt, bList: Lean term; bBool: Lean term (Bool, or Prop when isProp)
	isProp bool     // bBool
	parts  []string // bItem: one Int term per accessor
	cell   int      // bPtr
}

const (
	cClosed = iota
	cNil
	cOpen
	cDead
)

type bcell struct {
	st       int
	term     string          // closed: Lean term (an identifier); open: the matched identifier
	fields   map[string]bval // open
	oleft    map[string]int  // open: the original cell of every pointer field
	dirty    bool            // open: a field was written (the content differs from `term`)
	changed  bool            // the cell was given a new term (it no longer is the child its parent was opened with)
	view     bool
	deps     []int
	parent   int // the cell this one was opened from (-1: none)
	deadWhy  string
	fromCall bool
}

type bstate struct {
	vars  map[string]bval
	order []string
	cells []bcell
	tf    map[string]bval
	used  map[string]bool
}

func (s *bstate) clone() *bstate {
	n := &bstate{vars: map[string]bval{}, tf: map[string]bval{}, used: map[string]bool{}}
	for k, v := range s.vars {
		n.vars[k] = v
	}
	n.order = append([]string{}, s.order...)
	for k, v := range s.tf {
		n.tf[k] = v
	}
	for k, v := range s.used {
		n.used[k] = v
	}
	n.cells = make([]bcell, len(s.cells))
	for i, c := range s.cells {
		d := c
		if c.fields != nil {
			d.fields = map[string]bval{}
			for k, v := range c.fields {
				d.fields[k] = v
			}
			d.oleft = map[string]int{}
			for k, v := range c.oleft {
				d.oleft[k] = v
			}
		}
		d.deps = append([]int{}, c.deps...)
		n.cells[i] = d
	}
	return n
}

func (s *bstate) newCell(c bcell) int {
	s.cells = append(s.cells, c)
	return len(s.cells) - 1
}

var bstLeanKeywords = map[string]bool{"at": true, "from": true, "have": true, "show": true, "end": true,
	"open": true, "in": true, "fun": true, "match": true, "with": true, "then": true, "else": true,
	"if": true, "do": true, "let": true, "def": true, "where": true, "by": true, "max": true, "min": true,
	"Tree": true, "decide": true, "true": true, "false": true, "node": true, "leaf": true}

func (s *bstate) fresh(base string) string {
	if base == "" {
		base = "r"
	}
	name := base
	if bstLeanKeywords[name] {
		name = base + "_"
	}
	for i := 1; s.used[name]; i++ {
		name = fmt.Sprintf("%s_%d", base, i)
	}
	s.used[name] = true
	return name
}

// ---- the structs ----

type bfield struct {
	goName string
	kind   int      // bInt, bItem, bPtr
	lean   []string // constructor argument names
}

type bparam struct {
	name string
	kind int // bInt, bBool, bItem, bPtr, bList (by reference)
}

type bsig struct {
	name     string
	decl     *ast.FuncDecl
	recvName string
	recvKind int // 0 none, 1 node, 2 tree struct
	params   []bparam
	results  []int
	calls    map[string]bool
	mutating bool
	tReads   map[string]bool
	tWrites  map[string]bool
	mayPanic bool
	line     int
}

type bstTr struct {
	pkg       *packages.Package
	info      *types.Info
	file      *ast.File
	nodeFlds  []bfield
	treeFlds  []bfield
	accessors []string // of the constraint interface, in source order (GetLow, GetHigh)
	accLean   []string // low, high
	sigs      map[string]*bsig
	order     []string
}

func bstFail(n ast.Node, fn string, format string, args ...any) {
	pos := "?"
	if n != nil {
		p := fset.Position(n.Pos())
		pos = fmt.Sprintf("%s:%d", filepath.Base(p.Filename), p.Line)
	}
	fmt.Fprintf(os.Stderr, "extract/bst: %s: function %s: unsupported by the translator: %s\n", pos, fn, fmt.Sprintf(format, args...))
	os.Exit(1)
}

func namedName(t types.Type) string {
	if p, ok := t.(*types.Pointer); ok {
		t = p.Elem()
	}
	if n, ok := t.(*types.Named); ok {
		return n.Obj().Name()
	}
	return ""
}

func (tr *bstTr) isNodePtr(t types.Type) bool {
	_, ok := t.(*types.Pointer)
	return ok && namedName(t) == "node"
}
func (tr *bstTr) isTreePtr(t types.Type) bool {
	_, ok := t.(*types.Pointer)
	return ok && namedName(t) == "IntervalBST"
}
func (tr *bstTr) isItem(t types.Type) bool {
	_, ok := t.(*types.TypeParam)
	return ok
}
func (tr *bstTr) isItemSlice(t types.Type) bool {
	s, ok := t.(*types.Slice)
	return ok && tr.isItem(s.Elem())
}
func (tr *bstTr) isInt(t types.Type) bool {
	b, ok := t.Underlying().(*types.Basic)
	return ok && (b.Kind() == types.Int || b.Kind() == types.UntypedInt)
}
func (tr *bstTr) isBool(t types.Type) bool {
	b, ok := t.Underlying().(*types.Basic)
	return ok && (b.Kind() == types.Bool || b.Kind() == types.UntypedBool)
}

func (tr *bstTr) kindOf(n ast.Node, fn string, t types.Type) int {
	switch {
	case tr.isNodePtr(t):
		return bPtr
	case tr.isItem(t):
		return bItem
	case tr.isInt(t):
		return bInt
	case tr.isBool(t):
		return bBool
	case tr.isItemSlice(t):
		return bList
	}
	if p, ok := t.(*types.Pointer); ok && tr.isItemSlice(p.Elem()) {
		return bList
	}
	bstFail(n, fn, "type %s", t)
	return 0
}

func (tr *bstTr) itemType() string {
	if len(tr.accLean) == 1 {
		return "Int"
	}
	return "(" + strings.Join(repeatStr("Int", len(tr.accLean)), " × ") + ")"
}

func repeatStr(s string, n int) []string {
	r := make([]string, n)
	for i := range r {
		r[i] = s
	}
	return r
}

func (tr *bstTr) leanType(k int) string {
	switch k {
	case bInt:
		return "Int"
	case bBool:
		return "Bool"
	case bPtr:
		return "Tree"
	case bList:
		return "List " + tr.itemType()
	case bItem:
		return tr.itemType()
	}
	return "?"
}

// structFields reads `type <name>[T] struct` of the file.
func (tr *bstTr) structFields(name string) []bfield {
	for _, d := range tr.file.Decls {
		gd, ok := d.(*ast.GenDecl)
		if !ok || gd.Tok != token.TYPE {
			continue
		}
		for _, sp := range gd.Specs {
			ts := sp.(*ast.TypeSpec)
			if ts.Name.Name != name {
				continue
			}
			st, ok := ts.Type.(*ast.StructType)
			if !ok {
				bstFail(ts, name, "type %s is not a struct", name)
			}
			var res []bfield
			for _, f := range st.Fields.List {
				t := tr.info.TypeOf(f.Type)
				if len(f.Names) == 0 {
					bstFail(f, name, "embedded field")
				}
				for _, id := range f.Names {
					k := tr.kindOf(f, name, t)
					fl := bfield{goName: id.Name, kind: k}
					switch k {
					case bItem:
						for _, a := range tr.accLean {
							fl.lean = append(fl.lean, id.Name+"_"+a)
						}
					case bInt, bPtr:
						fl.lean = []string{id.Name}
					default:
						bstFail(f, name, "field %s of type %s", id.Name, t)
					}
					res = append(res, fl)
				}
			}
			return res
		}
	}
	bstFail(tr.file, name, "struct %s not found in %s", name, bstSrcFile)
	return nil
}

func (tr *bstTr) readConstraint() {
	for _, d := range tr.file.Decls {
		gd, ok := d.(*ast.GenDecl)
		if !ok || gd.Tok != token.TYPE {
			continue
		}
		for _, sp := range gd.Specs {
			ts := sp.(*ast.TypeSpec)
			if ts.Name.Name != "Intervalable" {
				continue
			}
			it, ok := ts.Type.(*ast.InterfaceType)
			if !ok {
				bstFail(ts, "Intervalable", "not an interface")
			}
			for _, m := range it.Methods.List {
				ft, ok := m.Type.(*ast.FuncType)
				if !ok || len(m.Names) != 1 || len(ft.Params.List) != 0 || ft.Results == nil || len(ft.Results.List) != 1 ||
					!tr.isInt(tr.info.TypeOf(ft.Results.List[0].Type)) {
					bstFail(m, "Intervalable", "constraint member that is not a method `M() int`")
				}
				n := m.Names[0].Name
				tr.accessors = append(tr.accessors, n)
				tr.accLean = append(tr.accLean, strings.ToLower(strings.TrimPrefix(n, "Get")))
			}
			return
		}
	}
	bstFail(tr.file, "Intervalable", "constraint interface not found")
}

// ---- signatures and effects ----

func (tr *bstTr) buildSig(fd *ast.FuncDecl) *bsig {
	s := &bsig{name: fd.Name.Name, decl: fd, calls: map[string]bool{}, tReads: map[string]bool{}, tWrites: map[string]bool{},
		line: fset.Position(fd.Pos()).Line}
	if fd.Recv != nil && len(fd.Recv.List) == 1 {
		r := fd.Recv.List[0]
		t := tr.info.TypeOf(r.Type)
		if len(r.Names) != 1 {
			bstFail(fd, s.name, "unnamed receiver")
		}
		s.recvName = r.Names[0].Name
		switch {
		case tr.isNodePtr(t):
			s.recvKind = 1
			s.params = append(s.params, bparam{s.recvName, bPtr})
		case tr.isTreePtr(t):
			s.recvKind = 2
		default:
			bstFail(fd, s.name, "receiver type %s", t)
		}
	}
	for _, p := range fd.Type.Params.List {
		t := tr.info.TypeOf(p.Type)
		k := tr.kindOf(p, s.name, t)
		if k == bList {
			if _, isPtr := t.(*types.Pointer); !isPtr {
				bstFail(p, s.name, "slice parameter by value")
			}
		}
		if len(p.Names) == 0 {
			bstFail(p, s.name, "unnamed parameter")
		}
		for _, id := range p.Names {
			s.params = append(s.params, bparam{id.Name, k})
		}
	}
	if fd.Type.Results != nil {
		for _, r := range fd.Type.Results.List {
			if len(r.Names) != 0 {
				bstFail(r, s.name, "named result")
			}
			s.results = append(s.results, tr.kindOf(r, s.name, tr.info.TypeOf(r.Type)))
		}
	}
	// direct effects
	isT := func(e ast.Expr) bool {
		id, ok := e.(*ast.Ident)
		return ok && s.recvKind == 2 && id.Name == s.recvName
	}
	lhs := func(e ast.Expr, rw bool) {
		if sel, ok := e.(*ast.SelectorExpr); ok {
			if isT(sel.X) {
				s.tWrites[sel.Sel.Name] = true
				if rw {
					s.tReads[sel.Sel.Name] = true
				}
			} else if tr.isNodePtr(tr.info.TypeOf(sel.X)) {
				s.mutating = true
			}
		}
	}
	ast.Inspect(fd.Body, func(n ast.Node) bool {
		switch v := n.(type) {
		case *ast.AssignStmt:
			for _, l := range v.Lhs {
				lhs(l, v.Tok != token.ASSIGN)
			}
			for _, r := range v.Rhs {
				ast.Inspect(r, func(m ast.Node) bool {
					if sel, ok := m.(*ast.SelectorExpr); ok && isT(sel.X) {
						if _, isF := tr.info.ObjectOf(sel.Sel).(*types.Var); isF {
							s.tReads[sel.Sel.Name] = true
						}
					}
					return true
				})
			}
			// reads on the left (t.x.y = ..) are not in the subset; the statement translator rejects them
			return true
		case *ast.IncDecStmt:
			lhs(v.X, true)
		case *ast.SelectorExpr:
			if isT(v.X) {
				if _, isF := tr.info.ObjectOf(v.Sel).(*types.Var); isF {
					s.tReads[v.Sel.Name] = true // over-approximation: a pure write is also counted as read only via lhs()
				}
			}
		case *ast.CallExpr:
			if sel, ok := v.Fun.(*ast.SelectorExpr); ok {
				if f, ok := tr.info.ObjectOf(sel.Sel).(*types.Func); ok && f.Pkg() == tr.pkg.Types {
					s.calls[sel.Sel.Name] = true
				}
			}
		}
		return true
	})
	// the generic SelectorExpr case above also sees the left-hand sides of plain assignments:
	// recompute the reads precisely (a field that is only ever assigned with `=` is not read)
	s.tReads = map[string]bool{}
	var walk func(n ast.Node)
	walk = func(n ast.Node) {
		ast.Inspect(n, func(m ast.Node) bool {
			switch v := m.(type) {
			case *ast.AssignStmt:
				for _, l := range v.Lhs {
					if sel, ok := l.(*ast.SelectorExpr); ok && isT(sel.X) {
						if v.Tok != token.ASSIGN {
							s.tReads[sel.Sel.Name] = true
						}
					} else {
						walk(l)
					}
				}
				for _, r := range v.Rhs {
					walk(r)
				}
				return false
			case *ast.IncDecStmt:
				if sel, ok := v.X.(*ast.SelectorExpr); ok && isT(sel.X) {
					s.tReads[sel.Sel.Name] = true
					return false
				}
			case *ast.SelectorExpr:
				if isT(v.X) {
					if _, isF := tr.info.ObjectOf(v.Sel).(*types.Var); isF {
						s.tReads[v.Sel.Name] = true
					}
				}
			}
			return true
		})
	}
	walk(fd.Body)
	return s
}

func (tr *bstTr) closeEffects() {
	for changed := true; changed; {
		changed = false
		for _, s := range tr.sigs {
			for c := range s.calls {
				cs, ok := tr.sigs[c]
				if !ok {
					continue
				}
				if cs.mutating && !s.mutating {
					s.mutating, changed = true, true
				}
				for f := range cs.tReads {
					if !s.tReads[f] {
						s.tReads[f], changed = true, true
					}
				}
				for f := range cs.tWrites {
					if !s.tWrites[f] {
						s.tWrites[f], changed = true, true
					}
				}
			}
		}
	}
}

// tFields: the fields of the tree struct a function takes as parameters, in struct order.
func (tr *bstTr) tFields(s *bsig) []bfield {
	var r []bfield
	for _, f := range tr.treeFlds {
		if s.tReads[f.goName] || s.tWrites[f.goName] {
			r = append(r, f)
		}
	}
	return r
}

func (tr *bstTr) tOuts(s *bsig) []bfield {
	var r []bfield
	for _, f := range tr.treeFlds {
		if s.tWrites[f.goName] {
			r = append(r, f)
		}
	}
	return r
}

func (s *bsig) hasPtrResult() bool {
	for _, k := range s.results {
		if k == bPtr {
			return true
		}
	}
	return false
}

// outPtrParams: pointer parameters handed back (updated) by a writing method without pointer result.
func (s *bsig) outPtrParams() []bparam {
	var r []bparam
	if s.mutating && !s.hasPtrResult() {
		for _, p := range s.params {
			if p.kind == bPtr {
				r = append(r, p)
			}
		}
	}
	return r
}

func (s *bsig) refParams() []bparam {
	var r []bparam
	for _, p := range s.params {
		if p.kind == bList {
			r = append(r, p)
		}
	}
	return r
}

func (tr *bstTr) outTypes(s *bsig) []string {
	var ts []string
	for _, k := range s.results {
		ts = append(ts, tr.leanType(k))
	}
	for range s.outPtrParams() {
		ts = append(ts, "Tree")
	}
	for _, f := range tr.tOuts(s) {
		ts = append(ts, tr.leanType(f.kind))
	}
	for range s.refParams() {
		ts = append(ts, tr.leanType(bList))
	}
	return ts
}

func (tr *bstTr) retType(s *bsig) string {
	ts := tr.outTypes(s)
	t := strings.Join(ts, " × ")
	if s.mayPanic {
		if len(ts) > 1 || strings.Contains(t, " ") {
			t = "(" + t + ")"
		}
		return "Res " + t
	}
	return t
}

func (tr *bstTr) leanParams(s *bsig) string {
	var ps []string
	for _, f := range tr.tFields(s) {
		ps = append(ps, fmt.Sprintf("(t_%s : %s)", f.goName, tr.leanType(f.kind)))
	}
	for _, p := range s.params {
		if p.kind == bItem {
			var ns []string
			for _, a := range tr.accLean {
				ns = append(ns, p.name+"_"+a)
			}
			ps = append(ps, fmt.Sprintf("(%s : Int)", strings.Join(ns, " ")))
		} else {
			ps = append(ps, fmt.Sprintf("(%s : %s)", leanIdent(p.name), tr.leanType(p.kind)))
		}
	}
	return strings.Join(ps, " ")
}

func leanIdent(n string) string {
	if bstLeanKeywords[n] {
		return n + "_"
	}
	return n
}

func sortedKeys(m map[string]bool) []string {
	var r []string
	for k := range m {
		r = append(r, k)
	}
	sort.Strings(r)
	return r
}
