// BusLoadK.lean: `CalculateBusLoad` (/repo/utils.go) translated from the CURRENT source (go/ast +
// go/types) into Lean on every run ("translator, tenth stage", C17).
// Acme/Proofs/GenKernelsBusLoad.lean proves the generated definition equal to the hand model
// Acme.BusLoad for all message lists, baud rates, default cycle times and bus types.
//
// A special-purpose translator (the kernel machinery of kernels.go has no float arithmetic, no
// nested range loops, no record lists); it FAILS LOUDLY - exit status 1 with file:line and the
// reason - on every construct outside the subset below, so a changed source is never
// mistranslated silently.
//
//	int (and named integer types: BusType)  ↦ Int   (+ - * unbounded; `/` = Int.tdiv, Go's truncated
//	                                                 division, only by a non-zero constant)
//	float64                                 ↦ Rat   (EXACT-RATIONAL convention: a float64 is the rational
//	                                                 it denotes, `float64(i)` is the integer as a rational,
//	                                                 + - * / += are the operations of ℚ; IEEE rounding,
//	                                                 ±Inf and NaN (x/0 is 0 in ℚ) are OUTSIDE the model and
//	                                                 named in the trusted base of C17)
//	constants                               ↦ their value (go/types), a float constant must be exact
//	conditions                              ↦ decidable Props
//	*Bus parameter                          ↦ the fields read: bus.typ ↦ `typ`, bus.baudrate ↦ `baudrate`
//	for .. range bus.nodeInts.getValues() { for .. range x.sentMessages.getValues() { B } }
//	                                        ↦ ONE structurally recursive definition over the parameter
//	                                          `msgs : List (Int × Int)` = (sizeByte, cycleTime) of the
//	                                          messages in iteration order (the flattening of the two map
//	                                          iterations is a projection-table entry of the spec); the
//	                                          message itself (a pointer) ↦ its index in that list
//	[]*T of fresh `&T{..}` literals         ↦ List of the generated record T (the elements are pairwise
//	                                          distinct pointers because only fresh literals are appended)
//	for _, v := range l { v.F = e }         ↦ l.map (fun v => { v with f := e })
//	slices.SortFunc(l, func(a, b *T) int {..}) ↦ `sortFunc <translated comparator> l` with `sortFunc` a
//	                                          PARAMETER of the generated function (the library routine)
//	switch tag { case C: .. }               ↦ if tag = <value of C> then .. else ..   (assigned variables
//	                                          as a tuple), so a second case changes the definition
//	if c { .. return .. }                   ↦ if c then .. else <rest>
//	error result                            ↦ Option (K.Cause × String): nil ↦ none,
//	                                          &ArgumentError{Name: "x", Err: ErrX} ↦ some (.ErrX, "x")
package main

import (
	"fmt"
	"go/ast"
	"go/constant"
	"go/token"
	"go/types"
	"os"
	"path/filepath"
	"sort"
	"strings"

	"golang.org/x/tools/go/packages"
)

func init() { extraWriters = append(extraWriters, writeBusLoad) }

const (
	blSrcFile = "utils.go"
	blGoFunc  = "CalculateBusLoad"
	blLean    = "calculateBusLoad"
	blOutFile = "BusLoadK.lean"
	blCauseNS = "Acme.Gen.K.Cause"
)

// projection table: field of the *Bus parameter ↦ parameter of the generated function
var blBusFields = []struct{ field, param string }{{"typ", "typ"}, {"baudrate", "baudrate"}}

// projection table: field of a sent message ↦ component of an element of `msgs`
var blMsgFields = []string{"sizeByte", "cycleTime"}

// the two map iterations that are flattened into `msgs`
const (
	blOuterField = "nodeInts"
	blInnerField = "sentMessages"
	blIterMethod = "getValues"
)

// names the generated text uses itself: a Go local with one of these names is refused
var blOwnNames = map[string]bool{"msgs": true, "sortFunc": true, "idx_": true, "rest_": true,
	"typ": true, "baudrate": true}

type blKind int

const (
	blInt blKind = iota
	blRat
	blList // []*T, T a translated record
	blRec  // *T
	blMsg  // the element of the flattened loop
	blBus  // the *Bus parameter
	blNodeInt
)

type blType struct {
	k   blKind
	rec string // blList, blRec: Go name of the struct
}

func (ty blType) lean() string {
	switch ty.k {
	case blInt:
		return "Int"
	case blRat:
		return "Rat"
	case blList:
		return "List " + ty.rec
	case blRec:
		return ty.rec
	}
	return "?"
}

type blVar struct {
	name string
	ty   blType
	obj  types.Object
}

type blErr struct {
	pos token.Pos
	msg string
}

type blRecord struct {
	goName string
	fields []blRecField
}

type blRecField struct {
	goName, lean string
	ty           blType
	isMsg        bool // *Message ↦ Nat (index into msgs)
}

type bltr struct {
	info    *types.Info
	pkg     *types.Package
	env     []*blVar // visible variables, in declaration order
	aux     []string // auxiliary definitions (loops, comparators), in order
	records map[string]*blRecord
	recOrd  []string
	nTmp    int
	nLoop   int
	nCmp    int
	// inside the flattened loop
	msgVar   types.Object
	msgName  string
	inLoop   bool
	inMap    types.Object // the element variable of a map loop
	usesSort bool
}

func (t *bltr) fail(n ast.Node, format string, a ...any) {
	pos := token.NoPos
	if n != nil {
		pos = n.Pos()
	}
	panic(blErr{pos, fmt.Sprintf(format, a...)})
}

func (t *bltr) lookup(obj types.Object) *blVar {
	for i := len(t.env) - 1; i >= 0; i-- {
		if t.env[i].obj == obj {
			return t.env[i]
		}
	}
	return nil
}

func (t *bltr) declare(id *ast.Ident, obj types.Object, ty blType) *blVar {
	if id.Name == "_" {
		t.fail(id, "blank identifier declared")
	}
	if blOwnNames[id.Name] || strings.HasSuffix(id.Name, "_") || strings.HasPrefix(id.Name, blLean) {
		t.fail(id, "local `%s` clashes with a name the generated text uses", id.Name)
	}
	for _, v := range t.env {
		if v.name == mangle(id.Name) && v.obj != obj {
			t.fail(id, "`%s` shadows another variable of the same name", id.Name)
		}
	}
	v := &blVar{name: mangle(id.Name), ty: ty, obj: obj}
	t.env = append(t.env, v)
	return v
}

// goType: the translation of a Go type (variables, struct fields)
func (t *bltr) goType(ty types.Type, at ast.Node) blType {
	switch u := ty.(type) {
	case *types.Slice:
		if p, ok := u.Elem().(*types.Pointer); ok {
			if n, ok := p.Elem().(*types.Named); ok {
				if _, isStruct := n.Underlying().(*types.Struct); isStruct && n.Obj().Pkg() == t.pkg {
					t.record(n, at)
					return blType{k: blList, rec: n.Obj().Name()}
				}
			}
		}
	case *types.Pointer:
		if n, ok := u.Elem().(*types.Named); ok && n.Obj().Pkg() == t.pkg {
			if n.Obj().Name() == "Bus" {
				return blType{k: blBus}
			}
			if _, known := t.records[n.Obj().Name()]; known {
				return blType{k: blRec, rec: n.Obj().Name()}
			}
		}
	}
	if b, ok := ty.Underlying().(*types.Basic); ok {
		switch b.Kind() {
		case types.Int:
			return blType{k: blInt}
		case types.Float64:
			return blType{k: blRat}
		}
	}
	t.fail(at, "type `%s` (only int, named integer types with underlying int, float64, []*T of a package struct)", ty.String())
	return blType{}
}

func lowerFirst(s string) string {
	if s == "" {
		return s
	}
	return strings.ToLower(s[:1]) + s[1:]
}

// record: the generated structure of a package struct (fields: float64 ↦ Rat, int ↦ Int,
// *Message ↦ Nat = index into msgs)
func (t *bltr) record(n *types.Named, at ast.Node) *blRecord {
	if r, ok := t.records[n.Obj().Name()]; ok {
		return r
	}
	st := n.Underlying().(*types.Struct)
	r := &blRecord{goName: n.Obj().Name()}
	t.records[r.goName] = r
	t.recOrd = append(t.recOrd, r.goName)
	for i := 0; i < st.NumFields(); i++ {
		f := st.Field(i)
		rf := blRecField{goName: f.Name(), lean: mangle(lowerFirst(f.Name()))}
		if p, ok := f.Type().(*types.Pointer); ok {
			if fn, ok := p.Elem().(*types.Named); ok && fn.Obj().Pkg() == t.pkg && fn.Obj().Name() == "Message" {
				rf.isMsg = true
				r.fields = append(r.fields, rf)
				continue
			}
		}
		if f.Embedded() {
			t.fail(at, "struct %s: embedded field %s", r.goName, f.Name())
		}
		rf.ty = t.goType(f.Type(), at)
		if rf.ty.k != blInt && rf.ty.k != blRat {
			t.fail(at, "struct %s: field %s of type %s", r.goName, f.Name(), f.Type().String())
		}
		r.fields = append(r.fields, rf)
	}
	return r
}

func (r *blRecord) field(name string) *blRecField {
	for i := range r.fields {
		if r.fields[i].goName == name {
			return &r.fields[i]
		}
	}
	return nil
}

// ---- expressions ----

func (t *bltr) constLit(e ast.Expr, tv types.TypeAndValue) (string, blType) {
	b, ok := tv.Type.Underlying().(*types.Basic)
	if !ok {
		t.fail(e, "constant `%s` of type %s", exprStr(e), tv.Type.String())
	}
	switch {
	case b.Kind() == types.Int:
		v := constant.ToInt(tv.Value)
		if v.Kind() != constant.Int {
			t.fail(e, "constant `%s` is not an integer", exprStr(e))
		}
		return "(" + v.ExactString() + " : Int)", blType{k: blInt}
	case b.Kind() == types.Float64:
		if _, exact := constant.Float64Val(tv.Value); !exact {
			t.fail(e, "constant `%s` is not exactly representable as a float64 (the exact-rational convention would hide its rounding)", exprStr(e))
		}
		num, den := constant.Num(tv.Value), constant.Denom(tv.Value)
		if num.Kind() != constant.Int || den.Kind() != constant.Int {
			t.fail(e, "constant `%s` is not a fraction", exprStr(e))
		}
		if den.ExactString() == "1" {
			return "(" + num.ExactString() + " : Rat)", blType{k: blRat}
		}
		return "((" + num.ExactString() + " : Rat) / (" + den.ExactString() + " : Rat))", blType{k: blRat}
	}
	t.fail(e, "constant `%s` of type %s (only int and float64 constants)", exprStr(e), tv.Type.String())
	return "", blType{}
}

func (t *bltr) expr(e ast.Expr) (string, blType) {
	e = unparen(e)
	tv, ok := t.info.Types[e]
	if !ok {
		t.fail(e, "expression `%s` without type information", exprStr(e))
	}
	if tv.Value != nil {
		return t.constLit(e, tv)
	}
	switch x := e.(type) {
	case *ast.Ident:
		obj := t.info.Uses[x]
		if v := t.lookup(obj); v != nil {
			switch v.ty.k {
			case blInt, blRat, blList:
				return v.name, v.ty
			case blRec:
				return v.name, v.ty
			}
			t.fail(e, "`%s` used as a value (only its fields %v are translated)", x.Name, t.fieldsOf(v.ty.k))
		}
		if obj != nil && obj == t.msgVar {
			t.fail(e, "`%s` used as a value here (the message is only translated as the value of a *Message field of a struct literal, and through %v)", x.Name, blMsgFields)
		}
		t.fail(e, "identifier `%s` is not a translated variable", x.Name)
	case *ast.SelectorExpr:
		return t.selector(x)
	case *ast.BinaryExpr:
		switch x.Op {
		case token.ADD, token.SUB, token.MUL, token.QUO:
			return t.arith(x, x.X, x.Op, x.Y)
		}
		t.fail(e, "operator `%s` in a value (only + - * /)", x.Op)
	case *ast.UnaryExpr:
		if x.Op == token.SUB {
			a, ty := t.expr(x.X)
			if ty.k != blInt && ty.k != blRat {
				t.fail(e, "negation of `%s`", exprStr(x.X))
			}
			return "(-" + a + ")", ty
		}
		t.fail(e, "unary operator `%s`", x.Op)
	case *ast.CallExpr:
		return t.call(x)
	case *ast.CompositeLit:
		// []*T{} : the empty list
		ty := t.goType(tv.Type, e)
		if ty.k == blList && len(x.Elts) == 0 {
			return "([] : " + ty.lean() + ")", ty
		}
		t.fail(e, "composite literal `%s` (only the empty []*T{} and &T{..} as an appended element)", exprStr(e))
	}
	t.fail(e, "expression `%s` (%T)", exprStr(e), e)
	return "", blType{}
}

func (t *bltr) fieldsOf(k blKind) []string {
	switch k {
	case blBus:
		var fs []string
		for _, f := range blBusFields {
			fs = append(fs, f.field)
		}
		return fs
	case blMsg:
		return blMsgFields
	}
	return nil
}

func (t *bltr) selector(x *ast.SelectorExpr) (string, blType) {
	root, ok := unparen(x.X).(*ast.Ident)
	if !ok {
		t.fail(x, "selector `%s` (only one step from a variable)", exprStr(x))
	}
	obj := t.info.Uses[root]
	sel, isField := t.info.Selections[x]
	if !isField || sel.Kind() != types.FieldVal {
		t.fail(x, "selector `%s` is not a field read", exprStr(x))
	}
	if obj != nil && obj == t.msgVar {
		for _, f := range blMsgFields {
			if x.Sel.Name == f {
				ty := t.goType(sel.Type(), x)
				if ty.k != blInt {
					t.fail(x, "message field `%s` is not an int", f)
				}
				return t.msgName + "_" + f, ty
			}
		}
		t.fail(x, "message field `%s` is not in the projection table %v", x.Sel.Name, blMsgFields)
	}
	v := t.lookup(obj)
	if v == nil {
		t.fail(x, "selector `%s`: `%s` is not a translated variable", exprStr(x), root.Name)
	}
	switch v.ty.k {
	case blBus:
		for _, f := range blBusFields {
			if x.Sel.Name == f.field {
				ty := t.goType(sel.Type(), x)
				if ty.k != blInt {
					t.fail(x, "bus field `%s` is not an integer", f.field)
				}
				return f.param, ty
			}
		}
		t.fail(x, "bus field `%s` is not in the projection table %v", x.Sel.Name, t.fieldsOf(blBus))
	case blRec:
		rf := t.records[v.ty.rec].field(x.Sel.Name)
		if rf == nil || rf.isMsg {
			t.fail(x, "field `%s` of %s is not a translated scalar field", x.Sel.Name, v.ty.rec)
		}
		return v.name + "." + rf.lean, rf.ty
	}
	t.fail(x, "selector `%s` on a %s", exprStr(x), v.ty.lean())
	return "", blType{}
}

func (t *bltr) arith(at ast.Node, xe ast.Expr, op token.Token, ye ast.Expr) (string, blType) {
	a, ta := t.expr(xe)
	b, tb := t.expr(ye)
	if ta != tb || (ta.k != blInt && ta.k != blRat) {
		t.fail(at, "operator `%s` on %s and %s", op, ta.lean(), tb.lean())
	}
	switch op {
	case token.ADD:
		return "(" + a + " + " + b + ")", ta
	case token.SUB:
		return "(" + a + " - " + b + ")", ta
	case token.MUL:
		return "(" + a + " * " + b + ")", ta
	case token.QUO:
		if ta.k == blRat {
			return "(" + a + " / " + b + ")", ta
		}
		// integer division: Go truncates toward zero and panics on a zero divisor
		tv := t.info.Types[unparen(ye)]
		if tv.Value == nil || constant.Sign(constant.ToInt(tv.Value)) == 0 {
			t.fail(at, "integer division `%s` by a divisor that is not a non-zero constant (Go panics on zero)", exprStr(at))
		}
		return "(Int.tdiv " + a + " " + b + ")", ta
	}
	t.fail(at, "operator `%s`", op)
	return "", blType{}
}

func (t *bltr) call(c *ast.CallExpr) (string, blType) {
	// conversion float64(x) / int(x)
	if tv, ok := t.info.Types[c.Fun]; ok && tv.IsType() {
		if len(c.Args) != 1 {
			t.fail(c, "conversion `%s`", exprStr(c))
		}
		to := t.goType(tv.Type, c)
		a, from := t.expr(c.Args[0])
		switch {
		case to == from:
			return a, to
		case to.k == blRat && from.k == blInt:
			return "((" + a + " : Int) : Rat)", to
		}
		t.fail(c, "conversion `%s` from %s to %s (a float64 to int conversion truncates: not translated)", exprStr(c), from.lean(), to.lean())
	}
	if sel, ok := c.Fun.(*ast.SelectorExpr); ok {
		if fn, ok := t.info.Uses[sel.Sel].(*types.Func); ok && fn.Pkg() != nil && fn.Pkg().Path() == "cmp" && fn.Name() == "Compare" && len(c.Args) == 2 {
			a, ta := t.expr(c.Args[0])
			b, tb := t.expr(c.Args[1])
			if ta != tb {
				t.fail(c, "cmp.Compare on %s and %s", ta.lean(), tb.lean())
			}
			switch ta.k {
			case blRat:
				return "(Acme.GoSem.cmpCompareRat " + a + " " + b + ")", blType{k: blInt}
			case blInt:
				return "(Acme.GoSem.cmpCompareInt " + a + " " + b + ")", blType{k: blInt}
			}
			t.fail(c, "cmp.Compare on %s", ta.lean())
		}
	}
	t.fail(c, "call `%s` (only float64(..), cmp.Compare, append, slices.SortFunc as a statement, the two getValues() iterations)", exprStr(c))
	return "", blType{}
}

func (t *bltr) prop(e ast.Expr) string {
	e = unparen(e)
	if tv, ok := t.info.Types[e]; ok && tv.Value != nil && tv.Value.Kind() == constant.Bool {
		if constant.BoolVal(tv.Value) {
			return "True"
		}
		return "False"
	}
	switch x := e.(type) {
	case *ast.BinaryExpr:
		switch x.Op {
		case token.LAND:
			return "(" + t.prop(x.X) + " ∧ " + t.prop(x.Y) + ")"
		case token.LOR:
			return "(" + t.prop(x.X) + " ∨ " + t.prop(x.Y) + ")"
		case token.EQL, token.NEQ, token.LSS, token.LEQ, token.GTR, token.GEQ:
			a, ta := t.expr(x.X)
			b, tb := t.expr(x.Y)
			if ta != tb || (ta.k != blInt && ta.k != blRat) {
				t.fail(e, "comparison `%s` of %s and %s", exprStr(e), ta.lean(), tb.lean())
			}
			op := map[token.Token]string{token.EQL: "=", token.NEQ: "≠", token.LSS: "<", token.LEQ: "≤", token.GTR: ">", token.GEQ: "≥"}[x.Op]
			return "(" + a + " " + op + " " + b + ")"
		}
	case *ast.UnaryExpr:
		if x.Op == token.NOT {
			return "(¬ " + t.prop(x.X) + ")"
		}
	}
	t.fail(e, "condition `%s` (only comparisons of int / float64 values, &&, ||, !)", exprStr(e))
	return ""
}

// errValue: nil ↦ none; &ArgumentError{Name: "x", Err: ErrX} ↦ some (.ErrX, "x")
func (t *bltr) errValue(e ast.Expr) string {
	e = unparen(e)
	if id, ok := e.(*ast.Ident); ok {
		if _, isNil := t.info.Uses[id].(*types.Nil); isNil {
			return "none"
		}
	}
	bad := func() {
		t.fail(e, "error result `%s` (only nil or &ArgumentError{Name: \"..\", Err: Err*})", exprStr(e))
	}
	u, ok := e.(*ast.UnaryExpr)
	if !ok || u.Op != token.AND {
		bad()
	}
	cl, ok := u.X.(*ast.CompositeLit)
	if !ok {
		bad()
	}
	if n, ok := t.info.Types[cl].Type.(*types.Named); !ok || n.Obj().Name() != "ArgumentError" || n.Obj().Pkg() != t.pkg {
		bad()
	}
	name, cause := "", ""
	for _, el := range cl.Elts {
		kv, ok := el.(*ast.KeyValueExpr)
		if !ok {
			bad()
		}
		switch exprStr(kv.Key) {
		case "Name":
			tv := t.info.Types[kv.Value]
			if tv.Value == nil || tv.Value.Kind() != constant.String {
				t.fail(kv.Value, "argument name `%s` is not a string constant", exprStr(kv.Value))
			}
			name = constant.StringVal(tv.Value)
		case "Err":
			id, ok := unparen(kv.Value).(*ast.Ident)
			if !ok {
				t.fail(kv.Value, "cause `%s` is not a sentinel", exprStr(kv.Value))
			}
			v, ok := t.info.Uses[id].(*types.Var)
			if !ok || v.Parent() != t.pkg.Scope() || !strings.HasPrefix(v.Name(), "Err") {
				t.fail(kv.Value, "cause `%s` is not a package-level Err* sentinel", id.Name)
			}
			// the sentinels of the kernel translator (kernels.go runs first: file-name order)
			if len(kCauses) > 0 && !kCauses[v.Name()] {
				t.fail(kv.Value, "sentinel `%s` is not a constructor of the generated %s", v.Name(), blCauseNS)
			}
			cause = v.Name()
		default:
			t.fail(kv, "field `%s` of the error literal", exprStr(kv.Key))
		}
	}
	if cause == "" || name == "" {
		bad()
	}
	return "some (" + blCauseNS + "." + cause + ", " + leanStr(name) + ")"
}

// ---- statements ----

func pad2(n int) string { return strings.Repeat("  ", n) }

// refuseReturn: a return below `stmts` (not inside a function literal)
func findReturn(stmts []ast.Stmt) ast.Node {
	var found ast.Node
	for _, s := range stmts {
		ast.Inspect(s, func(n ast.Node) bool {
			if found != nil {
				return false
			}
			switch n.(type) {
			case *ast.FuncLit:
				return false
			case *ast.ReturnStmt:
				found = n
				return false
			}
			return true
		})
	}
	return found
}

func endsInReturn(stmts []ast.Stmt) bool {
	if len(stmts) == 0 {
		return false
	}
	_, ok := stmts[len(stmts)-1].(*ast.ReturnStmt)
	return ok
}

// assignedOuter: the variables visible now that are assigned below `stmts`, in declaration order
func (t *bltr) assignedOuter(stmts []ast.Stmt) []*blVar {
	set := map[types.Object]bool{}
	for _, s := range stmts {
		ast.Inspect(s, func(n ast.Node) bool {
			switch x := n.(type) {
			case *ast.FuncLit:
				return false
			case *ast.AssignStmt:
				if x.Tok != token.DEFINE {
					for _, l := range x.Lhs {
						if id, ok := unparen(l).(*ast.Ident); ok {
							set[t.info.Uses[id]] = true
						}
					}
				}
			case *ast.IncDecStmt:
				if id, ok := unparen(x.X).(*ast.Ident); ok {
					set[t.info.Uses[id]] = true
				}
			case *ast.RangeStmt:
				if x.Tok == token.ASSIGN {
					t.fail(x, "range loop that assigns its variables with `=`")
				}
			case *ast.CallExpr:
				// slices.SortFunc(l, ..) rewrites l
				if t.isSortFunc(x) && len(x.Args) == 2 {
					if id, ok := unparen(x.Args[0]).(*ast.Ident); ok {
						set[t.info.Uses[id]] = true
					}
				}
			}
			return true
		})
	}
	var res []*blVar
	for _, v := range t.env {
		if set[v.obj] {
			res = append(res, v)
		}
	}
	return res
}

// usedOuter: the variables visible now that occur below `stmts`, in declaration order
func (t *bltr) usedOuter(stmts []ast.Stmt) []*blVar {
	set := map[types.Object]bool{}
	for _, s := range stmts {
		ast.Inspect(s, func(n ast.Node) bool {
			if id, ok := n.(*ast.Ident); ok {
				if o := t.info.Uses[id]; o != nil {
					set[o] = true
				}
			}
			return true
		})
	}
	var res []*blVar
	for _, v := range t.env {
		if set[v.obj] {
			res = append(res, v)
		}
	}
	return res
}

func tupleOf(vs []*blVar) string {
	if len(vs) == 1 {
		return vs[0].name
	}
	var ns []string
	for _, v := range vs {
		ns = append(ns, v.name)
	}
	return "(" + strings.Join(ns, ", ") + ")"
}

func tupleType(vs []*blVar) string {
	var ns []string
	for _, v := range vs {
		ns = append(ns, v.ty.lean())
	}
	return strings.Join(ns, " × ")
}

// proj: the i-th component of an n-tuple `r`
func proj(r string, i, n int) string {
	if n == 1 {
		return r
	}
	s := r
	for j := 0; j < i; j++ {
		s += ".2"
	}
	if i < n-1 {
		s += ".1"
	}
	return s
}

// unpack: `let v1 := r.1 ..` for the components of tuple `r`
func unpack(r string, vs []*blVar, ind int) string {
	var b strings.Builder
	for i, v := range vs {
		b.WriteString(pad2(ind) + "let " + v.name + " : " + v.ty.lean() + " := " + proj(r, i, len(vs)) + "\n")
	}
	return b.String()
}

func (t *bltr) tmp() string {
	t.nTmp++
	return fmt.Sprintf("r%d_", t.nTmp)
}

// block: the statements followed by `tail` (the continuation), as Lean text at indentation ind.
// Variables declared inside are dropped from the environment afterwards when `scoped`.
func (t *bltr) block(stmts []ast.Stmt, ind int, tail func(ind int) string) string {
	if len(stmts) == 0 {
		if tail == nil {
			t.fail(nil, "a path falls off the end of a branch that should return")
		}
		return tail(ind)
	}
	s, rest := stmts[0], stmts[1:]
	next := func(ind int) string { return t.block(rest, ind, tail) }
	switch x := s.(type) {
	case *ast.EmptyStmt:
		return next(ind)
	case *ast.DeclStmt:
		gd, ok := x.Decl.(*ast.GenDecl)
		if !ok || gd.Tok != token.VAR {
			t.fail(s, "declaration `%s` (only var)", exprStr(s))
		}
		out := ""
		for _, sp := range gd.Specs {
			vs := sp.(*ast.ValueSpec)
			if len(vs.Values) != 0 && len(vs.Values) != len(vs.Names) {
				t.fail(s, "var declaration `%s`", exprStr(s))
			}
			for i, id := range vs.Names {
				obj := t.info.Defs[id]
				ty := t.goType(obj.Type(), id)
				val := ""
				if len(vs.Values) > 0 {
					v, vt := t.expr(vs.Values[i])
					if vt != ty {
						t.fail(s, "initialiser of `%s`: %s for %s", id.Name, vt.lean(), ty.lean())
					}
					val = v
				} else {
					switch ty.k {
					case blInt, blRat:
						val = "(0 : " + ty.lean() + ")"
					case blList:
						val = "([] : " + ty.lean() + ")"
					default:
						t.fail(s, "zero value of `%s`", id.Name)
					}
				}
				v := t.declare(id, obj, ty)
				out += pad2(ind) + "let " + v.name + " : " + ty.lean() + " := " + val + "\n"
			}
		}
		return out + next(ind)
	case *ast.AssignStmt:
		return t.assign(x, ind) + next(ind)
	case *ast.IncDecStmt:
		id, ok := unparen(x.X).(*ast.Ident)
		if !ok {
			t.fail(s, "`%s`", exprStr(s))
		}
		v := t.lookup(t.info.Uses[id])
		if v == nil || v.ty.k != blInt {
			t.fail(s, "`%s` on something that is not an int variable", exprStr(s))
		}
		op := " + "
		if x.Tok == token.DEC {
			op = " - "
		}
		return pad2(ind) + "let " + v.name + " : Int := (" + v.name + op + "(1 : Int))\n" + next(ind)
	case *ast.ReturnStmt:
		if len(rest) != 0 {
			t.fail(rest[0], "statement after a return")
		}
		if t.inLoop || t.inMap != nil {
			t.fail(s, "return inside a loop")
		}
		if len(x.Results) != 3 {
			t.fail(s, "return with %d results (expected load, entries, error)", len(x.Results))
		}
		a, ta := t.expr(x.Results[0])
		b, tb := t.expr(x.Results[1])
		if ta.k != blRat || tb.k != blList {
			t.fail(s, "return `%s`: results of type %s, %s", exprStr(s), ta.lean(), tb.lean())
		}
		return pad2(ind) + "(" + a + ", " + b + ", " + t.errValue(x.Results[2]) + ")\n"
	case *ast.IfStmt:
		return t.ifStmt(x, ind, next)
	case *ast.SwitchStmt:
		return t.switchStmt(x, ind) + next(ind)
	case *ast.RangeStmt:
		return t.rangeStmt(x, ind) + next(ind)
	case *ast.ExprStmt:
		if c, ok := x.X.(*ast.CallExpr); ok && t.isSortFunc(c) {
			return t.sortStmt(c, ind) + next(ind)
		}
		t.fail(s, "expression statement `%s` (only slices.SortFunc(l, func..))", exprStr(s))
	case *ast.BlockStmt:
		t.fail(s, "nested block")
	}
	t.fail(s, "statement `%s` (%T)", exprStr(s), s)
	return ""
}

// scoped: run f, then forget the variables it declared
func (t *bltr) scoped(f func() string) string {
	n := len(t.env)
	s := f()
	t.env = t.env[:n]
	return s
}

func (t *bltr) assign(x *ast.AssignStmt, ind int) string {
	if len(x.Lhs) != 1 || len(x.Rhs) != 1 {
		t.fail(x, "assignment `%s` (only one variable)", exprStr(x))
	}
	lhs, rhs := unparen(x.Lhs[0]), x.Rhs[0]
	// v.F = e inside a map loop
	if sel, ok := lhs.(*ast.SelectorExpr); ok {
		root, isID := unparen(sel.X).(*ast.Ident)
		if !isID || t.inMap == nil || t.info.Uses[root] != t.inMap {
			t.fail(x, "assignment to `%s` (a field is only assigned on the element variable of `for _, v := range <list>`)", exprStr(lhs))
		}
		v := t.lookup(t.inMap)
		rf := t.records[v.ty.rec].field(sel.Sel.Name)
		if rf == nil || rf.isMsg {
			t.fail(x, "assignment to field `%s` of %s", sel.Sel.Name, v.ty.rec)
		}
		val := t.assignedValue(x, v.name+"."+rf.lean, rf.ty, rhs)
		return pad2(ind) + "let " + v.name + " : " + v.ty.lean() + " := { " + v.name + " with " + rf.lean + " := " + val + " }\n"
	}
	id, ok := lhs.(*ast.Ident)
	if !ok {
		t.fail(x, "assignment to `%s`", exprStr(lhs))
	}
	if x.Tok == token.DEFINE {
		obj := t.info.Defs[id]
		if obj == nil {
			t.fail(x, "`:=` that redeclares `%s`", id.Name)
		}
		ty := t.goType(obj.Type(), id)
		val, vt := t.rhs(rhs, ty)
		if vt != ty {
			t.fail(x, "`%s`: %s for %s", exprStr(x), vt.lean(), ty.lean())
		}
		v := t.declare(id, obj, ty)
		return pad2(ind) + "let " + v.name + " : " + ty.lean() + " := " + val + "\n"
	}
	v := t.lookup(t.info.Uses[id])
	if v == nil {
		t.fail(x, "assignment to `%s`, which is not a translated variable", id.Name)
	}
	if t.inMap != nil && v.obj != t.inMap {
		// a variable declared inside the map body may be assigned, an outer one not
		declaredInside := false
		for i := len(t.env) - 1; i >= 0 && t.env[i].obj != t.inMap; i-- {
			if t.env[i] == v {
				declaredInside = true
			}
		}
		if !declaredInside {
			t.fail(x, "assignment to the outer variable `%s` inside `for _, v := range <list>` (only fields of v)", id.Name)
		}
	}
	if v.ty.k == blRec || v.ty.k == blBus {
		t.fail(x, "assignment to the pointer variable `%s`", id.Name)
	}
	val := t.assignedValue(x, v.name, v.ty, rhs)
	return pad2(ind) + "let " + v.name + " : " + v.ty.lean() + " := " + val + "\n"
}

// assignedValue: the new value of `cur` under `cur = rhs` / `cur op= rhs`
func (t *bltr) assignedValue(x *ast.AssignStmt, cur string, ty blType, rhs ast.Expr) string {
	if x.Tok == token.ASSIGN {
		val, vt := t.rhs(rhs, ty)
		if vt != ty {
			t.fail(x, "`%s`: %s for %s", exprStr(x), vt.lean(), ty.lean())
		}
		return val
	}
	ops := map[token.Token]string{token.ADD_ASSIGN: "+", token.SUB_ASSIGN: "-", token.MUL_ASSIGN: "*"}
	op, ok := ops[x.Tok]
	if x.Tok == token.QUO_ASSIGN && ty.k == blRat {
		op, ok = "/", true
	}
	if !ok || (ty.k != blInt && ty.k != blRat) {
		t.fail(x, "assignment operator `%s` on %s", x.Tok, ty.lean())
	}
	val, vt := t.expr(rhs)
	if vt != ty {
		t.fail(x, "`%s`: %s for %s", exprStr(x), vt.lean(), ty.lean())
	}
	return "(" + cur + " " + op + " " + val + ")"
}

// rhs: an expression, or append(l, &T{..}) for a list
func (t *bltr) rhs(e ast.Expr, want blType) (string, blType) {
	if c, ok := unparen(e).(*ast.CallExpr); ok {
		if id, ok := c.Fun.(*ast.Ident); ok {
			if b, isB := t.info.Uses[id].(*types.Builtin); isB && b.Name() == "append" {
				if len(c.Args) != 2 || c.Ellipsis.IsValid() {
					t.fail(c, "`%s` (only append(l, &T{..}))", exprStr(c))
				}
				l, lt := t.expr(c.Args[0])
				if lt.k != blList {
					t.fail(c, "append to a %s", lt.lean())
				}
				return "(" + l + " ++ [" + t.recLit(c.Args[1], lt.rec) + "])", lt
			}
		}
	}
	return t.expr(e)
}

// recLit: &T{F: e, ..} ↦ { f := e, .. } (missing fields: the zero value)
func (t *bltr) recLit(e ast.Expr, rec string) string {
	u, ok := unparen(e).(*ast.UnaryExpr)
	if !ok || u.Op != token.AND {
		t.fail(e, "appended element `%s` is not a fresh &%s{..} (distinct elements are what makes the field updates of a later loop a map)", exprStr(e), rec)
	}
	cl, ok := u.X.(*ast.CompositeLit)
	if !ok {
		t.fail(e, "appended element `%s` is not a fresh &%s{..}", exprStr(e), rec)
	}
	if n, ok := t.info.Types[cl].Type.(*types.Named); !ok || n.Obj().Name() != rec {
		t.fail(e, "appended element `%s` is not a %s", exprStr(e), rec)
	}
	r := t.records[rec]
	vals := map[string]string{}
	for _, el := range cl.Elts {
		kv, ok := el.(*ast.KeyValueExpr)
		if !ok {
			t.fail(el, "struct literal without field names")
		}
		rf := r.field(exprStr(kv.Key))
		if rf == nil {
			t.fail(kv, "field `%s` of %s", exprStr(kv.Key), rec)
		}
		if _, dup := vals[rf.goName]; dup {
			t.fail(kv, "field `%s` twice", rf.goName)
		}
		if rf.isMsg {
			id, ok := unparen(kv.Value).(*ast.Ident)
			if !ok || t.msgVar == nil || t.info.Uses[id] != t.msgVar {
				t.fail(kv.Value, "field `%s` is not set to the message of the current iteration", rf.goName)
			}
			vals[rf.goName] = "idx_"
			continue
		}
		v, vt := t.expr(kv.Value)
		if vt != rf.ty {
			t.fail(kv, "field `%s`: %s for %s", rf.goName, vt.lean(), rf.ty.lean())
		}
		vals[rf.goName] = v
	}
	var parts []string
	for _, rf := range r.fields {
		v, ok := vals[rf.goName]
		if !ok {
			if rf.isMsg {
				t.fail(e, "struct literal without the message field `%s` (a nil message has no index)", rf.goName)
			}
			v = "(0 : " + rf.ty.lean() + ")"
		}
		parts = append(parts, rf.lean+" := "+v)
	}
	return "({ " + strings.Join(parts, ", ") + " } : " + rec + ")"
}

func (t *bltr) ifStmt(x *ast.IfStmt, ind int, next func(int) string) string {
	if x.Init != nil {
		t.fail(x, "if with an init statement")
	}
	cond := t.prop(x.Cond)
	var elseStmts []ast.Stmt
	switch e := x.Else.(type) {
	case nil:
	case *ast.BlockStmt:
		elseStmts = e.List
	case *ast.IfStmt:
		elseStmts = []ast.Stmt{e}
	default:
		t.fail(x, "else branch")
	}
	thenRet, elseRet := findReturn(x.Body.List), findReturn(elseStmts)
	if thenRet == nil && elseRet == nil {
		// no return inside: the assigned variables as a value
		all := append(append([]ast.Stmt{}, x.Body.List...), elseStmts...)
		vs := t.assignedOuter(all)
		if len(vs) == 0 {
			t.fail(x, "if statement without effect")
		}
		r := tupleOf(vs)
		if len(vs) > 1 {
			r = t.tmp()
		}
		fin := func(ind int) string { return pad2(ind) + tupleOf(vs) + "\n" }
		out := pad2(ind) + "let " + r + " : " + tupleType(vs) + " :=\n"
		out += pad2(ind+1) + "if " + cond + " then\n"
		out += t.scoped(func() string { return t.block(x.Body.List, ind+2, fin) })
		out += pad2(ind+1) + "else\n"
		out += t.scoped(func() string { return t.block(elseStmts, ind+2, fin) })
		if len(vs) > 1 {
			out += unpack(r, vs, ind)
		}
		return out + next(ind)
	}
	// a branch returns somewhere: the code after the `if` is the continuation of every branch that
	// does not end in a return (it is emitted once per such branch)
	if t.inLoop || t.inMap != nil {
		t.fail(x, "return inside a loop")
	}
	// the continuation must not see the variables a branch declares: they are dropped by `scoped`,
	// and it is translated afresh for each branch
	envLen := len(t.env)
	contin := func(ind int) string {
		saved := t.env
		t.env = append([]*blVar{}, t.env[:envLen]...)
		s := next(ind)
		t.env = saved
		return s
	}
	out := pad2(ind) + "if " + cond + " then\n"
	if endsInReturn(x.Body.List) {
		out += t.scoped(func() string { return t.block(x.Body.List, ind+1, nil) })
	} else {
		out += t.scoped(func() string { return t.block(x.Body.List, ind+1, contin) })
	}
	out += pad2(ind) + "else\n"
	if endsInReturn(elseStmts) {
		out += t.scoped(func() string { return t.block(elseStmts, ind+1, nil) })
	} else {
		out += t.scoped(func() string { return t.block(elseStmts, ind+1, contin) })
	}
	return out
}

// switchStmt: switch tag { case C1, C2: .. default: .. } without returns ↦ an if chain whose value
// is the tuple of the assigned variables
func (t *bltr) switchStmt(x *ast.SwitchStmt, ind int) string {
	if x.Init != nil || x.Tag == nil {
		t.fail(x, "switch with an init statement or without a tag")
	}
	tag, tt := t.expr(x.Tag)
	if tt.k != blInt {
		t.fail(x.Tag, "switch on a %s", tt.lean())
	}
	type arm struct {
		cond string
		body []ast.Stmt
	}
	var arms []arm
	var def []ast.Stmt
	hasDef := false
	var all []ast.Stmt
	for _, c := range x.Body.List {
		cc := c.(*ast.CaseClause)
		for _, s := range cc.Body {
			if b, ok := s.(*ast.BranchStmt); ok {
				t.fail(b, "`%s` in a switch", b.Tok)
			}
		}
		all = append(all, cc.Body...)
		if cc.List == nil {
			hasDef, def = true, cc.Body
			continue
		}
		var cs []string
		for _, ce := range cc.List {
			tv := t.info.Types[ce]
			if tv.Value == nil {
				t.fail(ce, "case `%s` is not a constant", exprStr(ce))
			}
			v, vt := t.constLit(ce, tv)
			if vt.k != blInt {
				t.fail(ce, "case `%s`", exprStr(ce))
			}
			cs = append(cs, tag+" = "+v)
		}
		arms = append(arms, arm{"(" + strings.Join(cs, " ∨ ") + ")", cc.Body})
	}
	_ = hasDef
	if r := findReturn(all); r != nil {
		t.fail(r, "return inside a switch")
	}
	vs := t.assignedOuter(all)
	if len(vs) == 0 {
		t.fail(x, "switch without effect")
	}
	r := tupleOf(vs)
	if len(vs) > 1 {
		r = t.tmp()
	}
	fin := func(ind int) string { return pad2(ind) + tupleOf(vs) + "\n" }
	out := pad2(ind) + "let " + r + " : " + tupleType(vs) + " :=\n"
	for i, a := range arms {
		kw := "if "
		if i > 0 {
			kw = "else if "
		}
		out += pad2(ind+1) + kw + a.cond + " then\n"
		body := a.body
		out += t.scoped(func() string { return t.block(body, ind+2, fin) })
	}
	if len(arms) > 0 {
		out += pad2(ind+1) + "else\n"
		out += t.scoped(func() string { return t.block(def, ind+2, fin) })
	} else {
		out += t.scoped(func() string { return t.block(def, ind+1, fin) })
	}
	if len(vs) > 1 {
		out += unpack(r, vs, ind)
	}
	return out
}

func (t *bltr) isSortFunc(c *ast.CallExpr) bool {
	sel, ok := c.Fun.(*ast.SelectorExpr)
	if !ok {
		return false
	}
	fn, ok := t.info.Uses[sel.Sel].(*types.Func)
	return ok && fn.Pkg() != nil && strings.HasSuffix(fn.Pkg().Path(), "slices") && fn.Name() == "SortFunc"
}

// sortStmt: slices.SortFunc(l, func(a, b *T) int { return e }) ↦ let l := sortFunc cmpN l
func (t *bltr) sortStmt(c *ast.CallExpr, ind int) string {
	if t.inLoop || t.inMap != nil {
		t.fail(c, "sort inside a loop")
	}
	if len(c.Args) != 2 {
		t.fail(c, "`%s`", exprStr(c))
	}
	id, ok := unparen(c.Args[0]).(*ast.Ident)
	if !ok {
		t.fail(c, "sorted expression `%s` is not a variable", exprStr(c.Args[0]))
	}
	l := t.lookup(t.info.Uses[id])
	if l == nil || l.ty.k != blList {
		t.fail(c, "sorted variable `%s` is not a translated list", id.Name)
	}
	fl, ok := c.Args[1].(*ast.FuncLit)
	if !ok {
		t.fail(c.Args[1], "comparator is not a function literal")
	}
	var ps []*ast.Ident
	for _, f := range fl.Type.Params.List {
		ps = append(ps, f.Names...)
	}
	if len(ps) != 2 || len(fl.Body.List) != 1 {
		t.fail(fl, "comparator `%s` (only func(a, b *T) int { return e })", exprStr(fl))
	}
	ret, ok := fl.Body.List[0].(*ast.ReturnStmt)
	if !ok || len(ret.Results) != 1 {
		t.fail(fl, "comparator `%s` (only func(a, b *T) int { return e })", exprStr(fl))
	}
	// the literal sees its two parameters only
	saved := t.env
	t.env = nil
	var names []string
	for _, p := range ps {
		obj := t.info.Defs[p]
		ty := t.goType(obj.Type(), p)
		if ty.k != blRec || ty.rec != l.ty.rec {
			t.fail(p, "comparator parameter `%s` is not a *%s", p.Name, l.ty.rec)
		}
		names = append(names, t.declare(p, obj, ty).name)
	}
	body, bt := t.expr(ret.Results[0])
	t.env = saved
	if bt.k != blInt {
		t.fail(ret, "comparator result is a %s", bt.lean())
	}
	t.nCmp++
	name := fmt.Sprintf("%s_cmp%d", blLean, t.nCmp)
	t.aux = append(t.aux, "/-- the comparator handed to slices.SortFunc: `"+exprStr(fl)+"` -/\n"+
		"def "+name+" ("+strings.Join(names, " ")+" : "+l.ty.rec+") : Int :=\n  "+body+"\n\n")
	t.usesSort = true
	return pad2(ind) + "let " + l.name + " : " + l.ty.lean() + " := sortFunc " + name + " " + l.name + "\n"
}

func isBlank(e ast.Expr) bool {
	if e == nil {
		return true
	}
	id, ok := e.(*ast.Ident)
	return ok && id.Name == "_"
}

func (t *bltr) rangeStmt(x *ast.RangeStmt, ind int) string {
	if t.inLoop || t.inMap != nil {
		t.fail(x, "nested loop (only the two flattened getValues() iterations nest)")
	}
	if !isBlank(x.Key) || x.Value == nil || x.Tok != token.DEFINE {
		t.fail(x, "range loop `for %s` (only `for _, v := range ..`)", exprStr(x.Key))
	}
	val, ok := x.Value.(*ast.Ident)
	if !ok || val.Name == "_" {
		t.fail(x, "range loop without an element variable")
	}
	// (a) for _, v := range <local list>
	if id, ok := unparen(x.X).(*ast.Ident); ok {
		l := t.lookup(t.info.Uses[id])
		if l == nil || l.ty.k != blList {
			t.fail(x.X, "range over `%s`, which is not a translated list", id.Name)
		}
		return t.mapLoop(x, val, l, ind)
	}
	// (b) the two flattened iterations
	return t.flatLoop(x, val, ind)
}

func (t *bltr) mapLoop(x *ast.RangeStmt, val *ast.Ident, l *blVar, ind int) string {
	if r := findReturn(x.Body.List); r != nil {
		t.fail(r, "return inside a loop")
	}
	out := pad2(ind) + "let " + l.name + " : " + l.ty.lean() + " := " + l.name + ".map (fun " + mangle(val.Name) + " =>\n"
	out += t.scoped(func() string {
		obj := t.info.Defs[val]
		v := t.declare(val, obj, blType{k: blRec, rec: l.ty.rec})
		t.inMap = obj
		defer func() { t.inMap = nil }()
		for _, s := range x.Body.List {
			switch s.(type) {
			case *ast.AssignStmt, *ast.DeclStmt:
			default:
				t.fail(s, "statement `%s` in `for _, v := range <list>` (only assignments)", exprStr(s))
			}
		}
		return t.block(x.Body.List, ind+2, func(ind int) string { return pad2(ind) + v.name + ")\n" })
	})
	return out
}

// getValuesOf: e = <root>.<field>.getValues() ↦ root
func (t *bltr) getValuesOf(e ast.Expr, field string) *ast.Ident {
	c, ok := unparen(e).(*ast.CallExpr)
	if !ok || len(c.Args) != 0 {
		return nil
	}
	m, ok := c.Fun.(*ast.SelectorExpr)
	if !ok || m.Sel.Name != blIterMethod {
		return nil
	}
	f, ok := unparen(m.X).(*ast.SelectorExpr)
	if !ok || f.Sel.Name != field {
		return nil
	}
	root, _ := unparen(f.X).(*ast.Ident)
	return root
}

func (t *bltr) elemNamed(e ast.Expr, name string) bool {
	sl, ok := t.info.Types[e].Type.(*types.Slice)
	if !ok {
		return false
	}
	p, ok := sl.Elem().(*types.Pointer)
	if !ok {
		return false
	}
	n, ok := p.Elem().(*types.Named)
	return ok && n.Obj().Pkg() == t.pkg && n.Obj().Name() == name
}

func (t *bltr) flatLoop(x *ast.RangeStmt, outerVal *ast.Ident, ind int) string {
	what := "range loop over `" + exprStr(x.X) + "` (only `for _, x := range <bus>." + blOuterField + "." + blIterMethod +
		"() { for _, m := range x." + blInnerField + "." + blIterMethod + "() { .. } }` and ranges over a local list)"
	root := t.getValuesOf(x.X, blOuterField)
	if root == nil || !t.elemNamed(x.X, "NodeInterface") {
		t.fail(x, "%s", what)
	}
	if v := t.lookup(t.info.Uses[root]); v == nil || v.ty.k != blBus {
		t.fail(x, "%s", what)
	}
	if len(x.Body.List) != 1 {
		t.fail(x, "the body of the outer iteration is not exactly the inner iteration: %s", what)
	}
	in, ok := x.Body.List[0].(*ast.RangeStmt)
	if !ok || !isBlank(in.Key) || in.Value == nil || in.Tok != token.DEFINE {
		t.fail(x.Body.List[0], "%s", what)
	}
	inVal, ok := in.Value.(*ast.Ident)
	if !ok || inVal.Name == "_" {
		t.fail(in, "%s", what)
	}
	inRoot := t.getValuesOf(in.X, blInnerField)
	if inRoot == nil || t.info.Uses[inRoot] != t.info.Defs[outerVal] || !t.elemNamed(in.X, "Message") {
		t.fail(in, "%s", what)
	}
	body := in.Body.List
	if r := findReturn(body); r != nil {
		t.fail(r, "return inside a loop")
	}
	for _, s := range body {
		ast.Inspect(s, func(n ast.Node) bool {
			switch b := n.(type) {
			case *ast.BranchStmt:
				t.fail(b, "`%s` inside a loop", b.Tok)
			case *ast.RangeStmt, *ast.ForStmt:
				t.fail(n, "nested loop")
			case *ast.Ident:
				if t.info.Uses[b] == t.info.Defs[outerVal] {
					t.fail(b, "the node interface `%s` is used inside the inner iteration", b.Name)
				}
			}
			return true
		})
	}
	accs := t.assignedOuter(body)
	if len(accs) == 0 {
		t.fail(x, "loop without effect")
	}
	isAcc := map[*blVar]bool{}
	for _, a := range accs {
		isAcc[a] = true
	}
	var fixed []*blVar
	for _, v := range t.usedOuter(body) {
		if !isAcc[v] {
			if v.ty.k != blInt && v.ty.k != blRat && v.ty.k != blList {
				t.fail(in, "`%s` is used inside the loop", v.name)
			}
			fixed = append(fixed, v)
		}
	}
	t.nLoop++
	name := fmt.Sprintf("%s_loop%d", blLean, t.nLoop)
	if blOwnNames[inVal.Name] || strings.HasSuffix(inVal.Name, "_") {
		t.fail(inVal, "local `%s` clashes with a name the generated text uses", inVal.Name)
	}
	t.msgVar, t.msgName, t.inLoop = t.info.Defs[inVal], mangle(inVal.Name), true
	var comps []string
	for _, f := range blMsgFields {
		comps = append(comps, t.msgName+"_"+f)
	}
	var fparams, fargs, aparams, atypes, anames []string
	for _, v := range fixed {
		fparams = append(fparams, "("+v.name+" : "+v.ty.lean()+")")
		fargs = append(fargs, v.name)
	}
	for _, v := range accs {
		aparams = append(aparams, "("+v.name+" : "+v.ty.lean()+")")
		atypes = append(atypes, v.ty.lean())
		anames = append(anames, v.name)
	}
	call := name
	if len(fargs) > 0 {
		call += " " + strings.Join(fargs, " ")
	}
	var d strings.Builder
	d.WriteString("/-- the two nested iterations `for .. range " + exprStr(x.X) + " { for .. range " + exprStr(in.X) + " { .. } }`,\n" +
		"    flattened: `msgs` = (" + strings.Join(blMsgFields, ", ") + ") of the messages in iteration order, `idx_` = the index of\n" +
		"    the current message in that order; accumulators: " + strings.Join(anames, ", ") + " -/\n")
	d.WriteString("def " + name + " " + strings.Join(fparams, " ") + " :\n    List (Int × Int) → Nat → " + strings.Join(atypes, " → ") + " → " + tupleType(accs) + "\n")
	d.WriteString("  | [], idx_, " + strings.Join(anames, ", ") + " => " + tupleOf(accs) + "\n")
	d.WriteString("  | (" + strings.Join(comps, ", ") + ") :: rest_, idx_, " + strings.Join(anames, ", ") + " =>\n")
	d.WriteString(t.scoped(func() string {
		return t.block(body, 2, func(ind int) string {
			return pad2(ind) + call + " rest_ (idx_ + 1) " + strings.Join(anames, " ") + "\n"
		})
	}))
	d.WriteString("\n")
	t.msgVar, t.msgName, t.inLoop = nil, "", false
	t.aux = append(t.aux, d.String())
	_ = aparams
	r := tupleOf(accs)
	if len(accs) > 1 {
		r = t.tmp()
	}
	out := pad2(ind) + "let " + r + " : " + tupleType(accs) + " := " + call + " msgs 0 " + strings.Join(anames, " ") + "\n"
	if len(accs) > 1 {
		out += unpack(r, accs, ind)
	}
	return out
}

// ---- the writer ----

func writeBusLoad(outDir string, root, dbc *packages.Package) {
	path := filepath.Join(outDir, blOutFile)
	os.Remove(path) // never keep a stale generated file
	defer func() {
		if r := recover(); r != nil {
			be, ok := r.(blErr)
			if !ok {
				panic(r)
			}
			where := blSrcFile + ": "
			if be.pos.IsValid() {
				ps := fset.Position(be.pos)
				where = fmt.Sprintf("%s:%d: ", filepath.Base(ps.Filename), ps.Line)
			}
			fmt.Fprintf(os.Stderr, "extract/busload: %s%s: unsupported by the translator: %s\n", where, blGoFunc, be.msg)
			os.Exit(1)
		}
	}()
	t := &bltr{info: root.TypesInfo, pkg: root.Types, records: map[string]*blRecord{}}
	var fd *ast.FuncDecl
	for _, f := range inFiles(root, []string{blSrcFile}) {
		for _, d := range f.Decls {
			if x, ok := d.(*ast.FuncDecl); ok && x.Recv == nil && x.Name.Name == blGoFunc {
				fd = x
			}
		}
	}
	if fd == nil || fd.Body == nil {
		t.fail(nil, "function %s not found in %s", blGoFunc, blSrcFile)
	}
	// parameters: one *Bus, the others int
	var params []string
	params = append(params, "(sortFunc : (MessageLoad → MessageLoad → Int) → List MessageLoad → List MessageLoad)")
	for _, f := range blBusFields {
		params = append(params, "("+f.param+" : Int)")
	}
	params = append(params, "(msgs : List (Int × Int))")
	nBus := 0
	for _, f := range fd.Type.Params.List {
		for _, id := range f.Names {
			obj := t.info.Defs[id]
			ty := t.goType(obj.Type(), id)
			switch ty.k {
			case blBus:
				nBus++
				t.env = append(t.env, &blVar{name: mangle(id.Name), ty: ty, obj: obj})
			case blInt:
				v := t.declare(id, obj, ty)
				params = append(params, "("+v.name+" : Int)")
			default:
				t.fail(id, "parameter `%s` of type %s", id.Name, obj.Type().String())
			}
		}
	}
	if nBus != 1 {
		t.fail(fd, "%d parameters of type *Bus (expected 1)", nBus)
	}
	// results: (float64, []*T, error)
	res := fd.Type.Results
	if res == nil || len(res.List) != 3 {
		t.fail(fd, "result list (expected (float64, []*T, error))")
	}
	for _, f := range res.List {
		if len(f.Names) != 0 {
			t.fail(f, "named results")
		}
	}
	r0 := t.goType(t.info.Types[res.List[0].Type].Type, res.List[0])
	r1 := t.goType(t.info.Types[res.List[1].Type].Type, res.List[1])
	if r0.k != blRat || r1.k != blList || r1.rec != "MessageLoad" || !types.Identical(t.info.Types[res.List[2].Type].Type, types.Universe.Lookup("error").Type()) {
		t.fail(fd, "result list (expected (float64, []*MessageLoad, error))")
	}
	if !endsInReturn(fd.Body.List) {
		t.fail(fd, "the function does not end in a return")
	}
	body := t.block(fd.Body.List, 1, nil)

	// every declared constant of the switch type(s): so that a new bus type is seen
	var busTypes []string
	if bt, ok := root.Types.Scope().Lookup("BusType").(*types.TypeName); ok {
		type cv struct {
			name string
			val  string
		}
		var cs []cv
		for _, n := range root.Types.Scope().Names() {
			if c, ok := root.Types.Scope().Lookup(n).(*types.Const); ok && types.Identical(c.Type(), bt.Type()) {
				cs = append(cs, cv{n, constant.ToInt(c.Val()).ExactString()})
			}
		}
		sort.Slice(cs, func(i, j int) bool { return cs[i].name < cs[j].name })
		for _, c := range cs {
			busTypes = append(busTypes, "("+leanStr(c.name)+", ("+c.val+" : Int))")
		}
	} else {
		t.fail(fd, "type BusType not found")
	}

	var b strings.Builder
	b.WriteString("/- GENERATED by /verif/tools/extract (kernels_busload.go) from /repo/" + blSrcFile + " — do not edit.\n")
	b.WriteString("   `" + blGoFunc + "` translated to Lean; proved equal to the hand model Acme.BusLoad in\n")
	b.WriteString("   Acme/Proofs/GenKernelsBusLoad.lean (obligations: Acme/Props/GenBusLoad.lean).\n\n")
	b.WriteString("   Conventions (tools/extract/kernels_busload.go, Acme/Core/GenBusLoadPrelude.lean):\n")
	b.WriteString("   * Go int ↦ Int (`/` ↦ Int.tdiv); float64 ↦ Rat, the EXACT rational it denotes: float64(i) is\n")
	b.WriteString("     the integer, + - * / are the operations of ℚ (rounding, ±Inf, NaN are outside the model).\n")
	b.WriteString("   * PROJECTION TABLE: `bus.typ` ↦ typ (the VALUE of the BusType constant), `bus.baudrate` ↦ baudrate;\n")
	b.WriteString("     the two nested iterations over `bus.nodeInts.getValues()` / `x.sentMessages.getValues()` ↦\n")
	b.WriteString("     ONE list `msgs` of (sizeByte, cycleTime) pairs in iteration order (the flattening is part of\n")
	b.WriteString("     the specification's projection, not of the translated text); a `*Message` stored in a struct\n")
	b.WriteString("     ↦ the index of that message in `msgs`.\n")
	b.WriteString("   * `slices.SortFunc(l, cmp)` ↦ `sortFunc <translated cmp> l`, `sortFunc` a parameter.\n")
	b.WriteString("   * error ↦ Option (Acme.Gen.K.Cause × String): the sentinel and the argument name of the\n")
	b.WriteString("     ArgumentError.\n\n")
	b.WriteString(exprSrc(fd) + "\n-/\n")
	b.WriteString("import Acme.Core.GenBusLoadPrelude\nimport Acme.Gen.Kernels\n\n")
	b.WriteString("set_option linter.unusedVariables false\n\nnamespace Acme.Gen.BusLoadK\n\n")
	for _, rn := range t.recOrd {
		r := t.records[rn]
		b.WriteString("/-- Go `struct " + r.goName + "` -/\nstructure " + r.goName + " where\n")
		for _, f := range r.fields {
			if f.isMsg {
				b.WriteString("  " + f.lean + " : Nat  -- " + f.goName + " *Message ↦ the index of the message in `msgs`\n")
			} else {
				b.WriteString("  " + f.lean + " : " + f.ty.lean() + "  -- " + f.goName + "\n")
			}
		}
		b.WriteString("  deriving Repr, DecidableEq\n\n")
	}
	b.WriteString("/-- every declared constant of type BusType: (name, value) -/\n")
	b.WriteString("def busTypes : List (String × Int) := [" + strings.Join(busTypes, ", ") + "]\n\n")
	for _, a := range t.aux {
		b.WriteString(a)
	}
	b.WriteString("/-- `" + blGoFunc + "(bus, defCycleTime)`: (load, entries, error) -/\n")
	b.WriteString("def " + blLean + " " + strings.Join(params, " ") + " :\n    Rat × List MessageLoad × Option (Acme.Gen.K.Cause × String) :=\n")
	b.WriteString(body)
	b.WriteString("\nend Acme.Gen.BusLoadK\n")
	if err := os.WriteFile(path, []byte(b.String()), 0o644); err != nil {
		panic(err)
	}
}
