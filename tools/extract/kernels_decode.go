// The raw-value accumulation loop of (*SignalLayout).Decode (signal_layout.go) as the kernel
// `K.decodeRaw`, proved equal to Acme.Bits.decodeRaw (Acme/Proofs/GenKernelsDecode.lean).
//
// The post-processing of a raw value (decodeSignal: scaling, sign extension, enum lookup) stays
// OUT of the kernel: the call is replaced through the opaque-call table by "the pair (entity id,
// raw value), unless decodeSignal returns nil for that signal".  Constructs used here (the generic
// parts are in kernels.go, switched on by the fields of kernelSpec listed below):
//
//	data []byte (sliceParams)     a bare slice PARAMETER ↦ `data : List (BitVec 8)` (len / range / index)
//	uint64((data[i] & m) >> o)    an index expression NESTED in the right-hand side of an assignment
//	  (hoistIndex)                is hoisted: `match GoSem.index? data i with | none => Res.panic
//	                              | some at1_ => ..` precedes the statement, the kernel returns
//	                              GoSem.Res.  Not hoisted (an error): out of the right operand of
//	                              && / ||, out of conditions, returns, loop headers
//	filter.signal.EntityID()      a member of a member of a slice element: the projection table entry
//	filter.signal                 "signal.EntityID" / "signal.Endianness" / "signal"
//	EntityID ↦ Option Nat         (idLean) with the sentinel EntityID("") ↦ none (idConsts): the id
//	                              of a signal is `some n`; the EMPTY entity id is not the id of a
//	                              signal (ids are 21-character nanoids, entity.go newEntityID)
//	var currSig Signal            (goTypes) an interface variable that is only assigned filter.signal
//	                              and tested against nil ↦ `Option Nat` (the id of the signal)
//	if currSig != nil { .. }      ↦ `match currSig with | some currSig => .. | none => ..` (as in
//	                              kernels_state.go, here for a kernel without state)
//	if x := f(..); c { .. }       an if with an init statement ↦ the block { x := f(..); if c { .. } }
//	dec := sl.decodeSignal(s, r)  (opaque) ↦ `if keep s then some (s, r) else none` with the extra
//	                              Lean parameter `keep : Nat → Bool` (extraParams): "decodeSignal
//	                              does not return nil for the signal with this id" (it returns nil
//	                              for multiplexer signals; the model keeps them and the driver drops
//	                              them afterwards, which is `List.filter keep`)
//	make([]*SignalDecoding, 0, n) ↦ [] (the capacity is evaluated and dropped; the length must be 0)
//	xs = append(xs, dec)          ↦ xs ++ [dec] for a non-nil `dec` of the element type
//	return nil                    ↦ [] for a slice result (kernels.go, value)
package main

import (
	"go/ast"
	"go/token"
	"go/types"
	"strconv"
	"strings"
)

var rawPair = "(Nat × BitVec 64)"

var decodeFilters = kSlice{
	kField: kField{"sl.filters", "filters"},
	elem:   "Acme.Bits.Filter",
	proj: map[string]string{
		"signal":            "(some %.id)",
		"signal.EntityID":   "(some %.id)",
		"signal.Endianness": "(if %.be then (1 : Int) else (0 : Int))", // the Go constant VALUES, as in generateFilters
		"byteIdx":           "byteIdx",
		"mask":              "(BitVec.ofNat 8 %.mask)", // Filter.mask is the Nat of a uint8
		"length":            "length",
		"leftOffset":        "leftOffset",
	},
}

var decodeKernelSpecs = []kernelSpec{
	{pkg: "acmelib", file: "signal_layout.go", goName: "SignalLayout.Decode", lean: "decodeRaw",
		// sl.signals is only measured (len(sl.signals) == 0 ↦ no decodings)
		slices:  []kSlice{filterSignals, decodeFilters},
		idTypes: []string{"EntityID"}, idLean: "Option Nat", idConsts: map[string]string{"": "none"},
		goTypes: map[string]kType{
			"Signal":            {k: kElemOpt, elem: "Nat"},
			"*SignalDecoding":   {k: kElemOpt, elem: rawPair},
			"[]*SignalDecoding": {k: kList, elem: rawPair},
		},
		sliceParams: []string{"data"},
		extraParams: []kVar{{"keep", kType{k: kFunc, elem: "Nat → Bool"}}},
		opaque: []kOpaque{{fun: "sl.decodeSignal",
			args: []kType{{k: kElem, elem: "Nat"}, {k: kBV, w: 64}},
			res:  kType{k: kElemOpt, elem: rawPair},
			lean: "(if keep %1 = true then some (%1, %2) else none)"}},
		hoistIndex: true,
		model:      "Acme.Bits.decodeRaw"},
}

func init() {
	kernelSpecs = append(kernelSpecs, decodeKernelSpecs...)
	stmtHooks = append(stmtHooks, (*ktr).decodeStmt)
}

func (t *ktr) isNilIdent(e ast.Expr) bool {
	id, ok := unparen(e).(*ast.Ident)
	if !ok {
		return false
	}
	_, n := t.info.Uses[id].(*types.Nil)
	return n
}

// decodeStmt: the statement forms listed in the header (only in kernels with a goTypes table).
func (t *ktr) decodeStmt(s ast.Stmt) ([]kStmt, bool) {
	if len(t.spec.goTypes) == 0 || t.spec.state != nil {
		return nil, false
	}
	switch x := s.(type) {
	case *ast.IfStmt:
		if x.Init != nil {
			cp := *x
			cp.Init = nil
			return t.block([]ast.Stmt{x.Init, &cp}), true
		}
		return t.nilTestIf(x)
	case *ast.AssignStmt:
		if len(x.Lhs) != 1 || len(x.Rhs) != 1 {
			return nil, false
		}
		call, isCall := unparen(x.Rhs[0]).(*ast.CallExpr)
		if !isCall {
			return nil, false
		}
		fun := exprStr(call.Fun)
		if x.Tok == token.DEFINE {
			id, isID := x.Lhs[0].(*ast.Ident)
			if !isID {
				return nil, false
			}
			// xs := make([]T, 0, n)
			if fid, ok := unparen(call.Fun).(*ast.Ident); ok && fid.Name == "make" {
				if _, isBuiltin := t.info.Uses[fid].(*types.Builtin); isBuiltin {
					ty := t.typeOf(t.info.Types[call].Type, call)
					if ty.k != kList {
						t.fail(call, "make of a %s", ty)
					}
					if len(call.Args) < 2 || len(call.Args) > 3 {
						t.fail(call, "make with %d arguments", len(call.Args))
					}
					if tv := t.info.Types[call.Args[1]]; tv.Value == nil || tv.Value.ExactString() != "0" {
						t.fail(call, "make with the length `%s` (only an empty slice, length 0, is translated)", exprStr(call.Args[1]))
					}
					if len(call.Args) == 3 {
						t.value(call.Args[2], kType{k: kInt}) // the capacity: evaluated (it must be in the subset), dropped
					}
					return []kStmt{kLet{t.declare(id, ty), "[]", ty, true}}, true
				}
			}
			// x := <opaque call>
			for _, op := range t.spec.opaque {
				if fun != op.fun {
					continue
				}
				if call.Ellipsis.IsValid() || len(call.Args) != len(op.args) {
					t.fail(call, "opaque call `%s` with %d arguments (the table has %d)", fun, len(call.Args), len(op.args))
				}
				if rt := t.typeOf(t.info.Types[call].Type, call); rt != op.res {
					t.fail(call, "opaque call `%s` returns a %s (the table has %s)", fun, rt, op.res)
				}
				for _, c := range op.causes {
					t.regCause(c)
				}
				term := op.lean
				for i, a := range call.Args {
					as, aty := t.expr(a)
					if aty != op.args[i] {
						if aty.k == kElemOpt {
							t.fail(a, "argument `%s` of the opaque call `%s` may be nil here (outside an `if %s != nil` branch)", exprStr(a), fun, exprStr(a))
						}
						t.fail(a, "argument `%s` of the opaque call `%s` has type %s (the table has %s)", exprStr(a), fun, aty, op.args[i])
					}
					term = strings.ReplaceAll(term, "%"+strconv.Itoa(i+1), as)
				}
				return []kStmt{kLet{t.declare(id, op.res), term, op.res, true}}, true
			}
			return nil, false
		}
		if x.Tok == token.ASSIGN {
			// xs = append(xs, v) for a list of the goTypes table and a non-nil element variable v
			id, ok := unparen(x.Lhs[0]).(*ast.Ident)
			if !ok {
				return nil, false
			}
			name, ok := t.vars[t.info.Uses[id]]
			if !ok || t.names[name].k != kList {
				return nil, false
			}
			lty := t.names[name]
			if _, scalar := scalarElem(lty.elem); scalar {
				return nil, false
			}
			if fun != "append" || len(call.Args) != 2 || call.Ellipsis.IsValid() || exprStr(call.Args[0]) != id.Name {
				t.fail(x, "assignment `%s` to a local slice (only xs = append(xs, v))", exprStr(x))
			}
			v, vty := t.expr(call.Args[1])
			if vty.k == kElemOpt && vty.elem == lty.elem {
				t.fail(x, "append of `%s`, which may be nil here (outside an `if %s != nil` branch)", v, v)
			}
			if vty.k != kElem || vty.elem != lty.elem {
				t.fail(x, "append of a %s to a list of %s", vty, lty.elem)
			}
			return []kStmt{kLet{name, "(" + name + " ++ [" + v + "])", lty, false}}, true
		}
	}
	return nil, false
}

// nilTestIf: `if p != nil { A } else { B }` (or `== nil`) for a nilable variable p ↦
// `match p with | some p => A | none => B`; inside A the variable is a plain element.
func (t *ktr) nilTestIf(x *ast.IfStmt) ([]kStmt, bool) {
	b, ok := unparen(x.Cond).(*ast.BinaryExpr)
	if !ok || (b.Op != token.NEQ && b.Op != token.EQL) {
		return nil, false
	}
	var side ast.Expr
	switch {
	case t.isNilIdent(b.Y):
		side = b.X
	case t.isNilIdent(b.X):
		side = b.Y
	default:
		return nil, false
	}
	id, ok := unparen(side).(*ast.Ident)
	if !ok {
		return nil, false
	}
	name, ok := t.vars[t.info.Uses[id]]
	if !ok || t.names[name].k != kElemOpt {
		return nil, false
	}
	var thenS, elsS []ast.Stmt
	thenS = x.Body.List
	if x.Else != nil {
		eb, isBlock := x.Else.(*ast.BlockStmt)
		if !isBlock {
			t.fail(x, "else-if after a nil test of the variable `%s`", name)
		}
		elsS = eb.List
	}
	opt := t.names[name]
	some := func(list []ast.Stmt) []kStmt {
		t.names[name] = kType{k: kElem, elem: opt.elem}
		r := t.block(list)
		t.names[name] = opt
		return r
	}
	// the branch in which p is known to be non-nil must not assign p (the match shadows it)
	check := func(ss []kStmt) {
		var asg []kLet
		outerAssigned(ss, map[string]bool{}, map[string]bool{}, &asg)
		for _, a := range asg {
			if a.name == name {
				t.fail(x, "assignment to `%s` inside its own `!= nil` branch", name)
			}
		}
	}
	var a, bb []kStmt
	if b.Op == token.NEQ {
		a, bb = some(thenS), t.block(elsS)
	} else {
		bb, a = t.block(thenS), some(elsS)
	}
	check(a)
	return []kStmt{kIf{"", a, bb, "if", x.Pos(), name}}, true
}
