// Exporter.lean: the exporting walk of /repo/exporter.go translated from the CURRENT source
// (go/ast + go/types) into Lean on every run ("translator, twelfth stage", C11).
// Acme/Proofs/GenExporter*.lean prove the generated `exportMessage` equal, through the view of
// Acme/Proofs/GenExporterDefs.lean, to the hand model `Acme.Import.exportAny` (signals and
// SG_MUL_VAL_ entries of a message's signal tree) for ALL trees.
//
// A special-purpose translator for AST-BUILDING code; it FAILS LOUDLY - exit status 1 with
// file:line and the reason - on every construct outside the subset below, so a changed source is
// never mistranslated silently.  Hand-written counterpart: lean/Acme/Core/GenExporterPrelude.lean.
//
//	roots                       xpRoots (exportBus) and every method of *exporter / function they call
//	receiver `e`                ↦ the threaded state `st : Acme.XSem.St`, only for functions that write it:
//	                              `e.dbcFile.X = append(e.dbcFile.X, v)` ↦ { st with x := st.x ++ [v] },
//	                              `e.currDBCMsg.Signals` ↦ st.curSignals, `e.currDBCMsg = m` (m a fresh
//	                              message) ↦ curSignals := m.signals and every later read of m ↦
//	                              { m with signals := st.curSignals } (the two names alias),
//	                              `e.sigEnums[k] = v` ↦ mapSet; a function that writes `e` returns st
//	model objects               ↦ the records of the prelude through the projection table xpProj
//	                              (receiver kind, Go member) ↦ Lean template; an unknown member: refused.
//	                              `x.ParentMessage()` / `x.parentMsg` ↦ the parameter `pm` (in a function
//	                              with a *Message parameter m: `m.parent`)
//	`switch s.Kind()` whose cases start with `v, err := s.ToK(); if err != nil { panic(err) }`
//	                            ↦ `match s with | .k v => ..` (case constant and ToK must agree)
//	*dbc.T locals / parameters  ↦ values of the record; `p.F = v` ↦ { p with f := v }; a parameter that is
//	                              written and read by a caller afterwards is RETURNED; a pointer that was
//	                              appended to an output list must not be written afterwards (refused)
//	map[string]V locals         ↦ association lists (mapGet2 / mapGet / mapSet); ranging over a map: refused
//	for [i,] x := range l       ↦ `F_loopN`, recursion over the list returning the assigned variables
//	                              (`continue` = the recursive call); nested loops are separate functions
//	for i := a; i < b; i++      ↦ `F_loopN` by well-founded recursion on b - i (b must not change)
//	s[i] (slice)                ↦ `idx s i`, `s[len(s)-1].F = v` ↦ `modifyAt`: results in `Res` (panic when
//	                              out of range), and so every function that can reach one
//	x := make([]T, len(l)); for i, v := range l { x[i] = E }   ↦ x := l.map (fun v => E)
//	recursion (exportSignal ↔ exportMultiplexerSignal) ↦ one `mutual` block, well-founded on sizeOf of
//	                              the signal / the groups (no fuel)
//	int ↦ Int (`%` ↦ Int.tmod), uint32(int) ↦ u32, float64 ↦ Rat (exact value), conditions ↦ decidable Props
//	clearSpaces(x)              ↦ `clr x`, `clr` a parameter (see the prelude)
//	SLICE.  The attribute statements (xpSliceSeeds: everything that only feeds `attAssignments`,
//	`dbcAttVal`, e.dbcFile.AttributeValues, exportAttributeAssignment) are NOT translated in this stage;
//	they are skipped only when they write nothing but such variables and sinks - a skipped variable
//	read by a translated statement is refused.  The skipped statements are listed in the output.
package main

import (
	"fmt"
	"go/ast"
	"go/constant"
	"go/token"
	"go/types"
	"os"
	"path/filepath"
	"sort"
	"strings"

	"golang.org/x/tools/go/packages"
)

func init() { extraWriters = append(extraWriters, writeExporter) }

const (
	xpSrcFile = "exporter.go"
	xpOutFile = "Exporter.lean"
	xpRecv    = "exporter"
)

var xpRoots = []string{"exportBus", "exportAttributeAssignment"}

// free functions of the file that are translated when a translated function calls them
var xpFreeFuncs = map[string]bool{"exportsAsHex": true}

// ---------------------------------------------------------------- spec tables

// (receiver kind, Go member) ↦ Lean template (`%` = the receiver), kind of the result ("" = plain value)
// members ending in "()" are parameterless method calls
var xpProj = map[string][2]string{
	"Sig Name()":                     {"(Sig.base %).name", ""},
	"Sig Desc()":                     {"(Sig.base %).desc", ""},
	"Sig Kind()":                     {"(Sig.kind %)", ""},
	"Sig ParentMessage()":            {"pm", "ParentMsg"},
	"Sig ParentMultiplexerSignal()":  {"(Sig.base %).hasParentMux", "nil?"},
	"StdSig GetSize()":               {"%.size", ""},
	"StdSig GetStartBit()":           {"%.b.startBit", ""},
	"StdSig Name()":                  {"%.b.name", ""},
	"StdSig parentMsg":               {"pm", "ParentMsg"},
	"StdSig typ":                     {"%.typ", "SigType"},
	"StdSig unit":                    {"%.unit", "SigUnit?"},
	"EnumSig GetSize()":              {"%.size", ""},
	"EnumSig GetStartBit()":          {"%.b.startBit", ""},
	"EnumSig Name()":                 {"%.b.name", ""},
	"EnumSig parentMsg":              {"pm", "ParentMsg"},
	"EnumSig enum":                   {"%.enum", "SigEnum"},
	"MuxSig GetGroupCountSize()":     {"%.groupCountSize", ""},
	"MuxSig GetStartBit()":           {"%.b.startBit", ""},
	"MuxSig Name()":                  {"%.b.name", ""},
	"MuxSig name":                    {"%.b.name", ""},
	"MuxSig parentMsg":               {"pm", "ParentMsg"},
	"MuxSig groupCount":              {"%.groupCount", ""},
	"MuxSig GetSignalGroups()":       {"%_groups", "[][]Sig"},
	"SigType signed":                 {"%.signed", ""},
	"SigType min":                    {"%.min", ""},
	"SigType max":                    {"%.max", ""},
	"SigType offset":                 {"%.offset", ""},
	"SigType scale":                  {"%.scale", ""},
	"SigUnit symbol":                 {"%.symbol", ""},
	"SigEnum entityID":               {"%.entityID", ""},
	"SigEnum name":                   {"%.name", ""},
	"SigEnum maxIndex":               {"%.maxIndex", ""},
	"SigEnum Values()":               {"%.values", "[]EnumValue"},
	"EnumValue index":                {"%.index", ""},
	"EnumValue name":                 {"%.name", ""},
	"ParentMsg byteOrder":            {"%.byteOrder", ""},
	"ParentMsg Receivers()":          {"%.receivers", "[]Recv"},
	"Recv node":                      {"%", "RecvNode"},
	"RecvNode name":                  {"%", ""},
	"Msg name":                       {"%.name", ""},
	"Msg desc":                       {"%.desc", ""},
	"Msg sizeByte":                   {"%.sizeByte", ""},
	"Msg GetCANID()":                 {"%.canID", ""},
	"Msg Signals()":                  {"%.signals", "[]Sig"},
	"Msg senderNodeInt":              {"%", "MsgSender"},
	"MsgSender node":                 {"%", "MsgSenderNode"},
	"MsgSenderNode name":             {"%.senderName", ""},
	"AttrAss attribute":              {"%.att", "Attr"},
	"AttrAss value":                  {"%.value", "AnyVal"},
	"Attr Name()":                    {"(Attr.name %)", ""},
	"StrAttr defValue":               {"%.defValue", ""},
	"IntAttr defValue":               {"%.defValue", ""},
	"IntAttr min":                    {"%.min", ""},
	"IntAttr max":                    {"%.max", ""},
	"IntAttr isHexFormat":            {"%.isHexFormat", ""},
	"FloatAttr defValue":             {"%.defValue", ""},
	"FloatAttr min":                  {"%.min", ""},
	"FloatAttr max":                  {"%.max", ""},
	"EnumAttr defValue":              {"%.defValue", ""},
	"EnumAttr Values()":              {"%.values", ""},
	"Bus desc":                       {"%.desc", ""},
	"Bus NodeInterfaces()":           {"%.nodeInterfaces", "[]NodeInt"},
	"NodeInt node":                   {"%", "NodeIntNode"},
	"NodeIntNode name":               {"%.nodeName", ""},
	"NodeIntNode desc":               {"%.nodeDesc", ""},
	"NodeInt SentMessages()":         {"%.sentMessages", "[]Msg"},
}

// Go type of a model object ↦ receiver kind / Lean type
var xpModelTypes = map[string][2]string{
	"Signal":             {"Sig", "Sig"},
	"*StandardSignal":    {"StdSig", "StdSig"},
	"*EnumSignal":        {"EnumSig", "EnumSig"},
	"*MultiplexerSignal": {"MuxSig", "MuxSig"},
	"*SignalType":        {"SigType", "SigType"},
	"*SignalUnit":        {"SigUnit?", "Option SigUnit"},
	"*SignalEnum":        {"SigEnum", "SigEnum"},
	"*SignalEnumValue":   {"EnumValue", "EnumValue"},
	"*Message":           {"Msg", "Msg"},
	"*NodeInterface":     {"NodeInt", "NodeInt"}, // an element of Receivers() is a "Recv" by its path
	"*Bus":               {"Bus", "Bus"},
	"*AttributeAssignment": {"AttrAss", "AttrAssignment"},
	"Attribute":          {"Attr", "Attr"},
	"*StringAttribute":   {"StrAttr", "StrAttr"},
	"*IntegerAttribute":  {"IntAttr", "IntAttr"},
	"*FloatAttribute":    {"FloatAttr", "FloatAttr"},
	"*EnumAttribute":     {"EnumAttr", "EnumAttr"},
}

// kinds of slices of model objects ↦ element kind
var xpElemKind = map[string]string{"[]Recv": "Recv", "[]Sig": "Sig", "[][]Sig": "[]Sig", "[]EnumValue": "EnumValue",
	"[]NodeInt": "NodeInt", "[]Msg": "Msg", "[]SigEnum": "SigEnum"}

// the three signal kinds: constant ↦ (conversion method, constructor, kind of the bound variable)
var xpKinds = map[string][3]string{
	"SignalKindStandard":    {"ToStandard", "standard", "StdSig"},
	"SignalKindEnum":        {"ToEnum", "enum", "EnumSig"},
	"SignalKindMultiplexer": {"ToMultiplexer", "mux", "MuxSig"},
}

// the four attribute types: constant ↦ (conversion method, constructor, kind of the bound variable)
var xpAttrKinds = map[string][3]string{
	"AttributeTypeString":  {"ToString", "string", "StrAttr"},
	"AttributeTypeInteger": {"ToInteger", "integer", "IntAttr"},
	"AttributeTypeFloat":   {"ToFloat", "float", "FloatAttr"},
	"AttributeTypeEnum":    {"ToEnum", "enum", "EnumAttr"},
}

// "GoType LeanType GoConst=ctor ..." (package acmelib or dbc); every constant of the type must be listed
var xpEnumTable = []string{
	"MessageByteOrder MsgByteOrder MessageByteOrderLittleEndian=littleEndian MessageByteOrderBigEndian=bigEndian",
	"SignalKind SignalKind SignalKindStandard=standard SignalKindEnum=enum SignalKindMultiplexer=multiplexer",
	"dbc.SignalByteOrder Acme.Dbc.ByteOrder SignalLittleEndian=littleEndian SignalBigEndian=bigEndian",
	"dbc.SignalValueType Acme.Dbc.ValueType SignalUnsigned=unsigned SignalSigned=signed",
	"dbc.ValueEncodingKind Acme.Dbc.ValueEncodingKind ValueEncodingSignal=signal ValueEncodingEnvVar=envVar",
	"AttributeType AttrType AttributeTypeString=string AttributeTypeInteger=integer AttributeTypeFloat=float AttributeTypeEnum=enum",
	"dbc.AttributeKind Acme.Dbc.AttributeKind AttributeGeneral=general AttributeNode=node AttributeMessage=message AttributeSignal=signal AttributeEnvVar=envVar",
	"dbc.AttributeType Acme.Dbc.AttributeType AttributeInt=int AttributeFloat=float AttributeString=string AttributeEnum=enum AttributeHex=hex",
	"dbc.AttributeDefaultType Acme.Dbc.AttrValType AttributeDefaultInt=int AttributeDefaultString=string AttributeDefaultFloat=float AttributeDefaultHex=hex",
	"dbc.AttributeValueType Acme.Dbc.AttrValType AttributeValueInt=int AttributeValueString=string AttributeValueFloat=float AttributeValueHex=hex",
	"dbc.CommentKind Acme.Dbc.CommentKind CommentGeneral=general CommentNode=node CommentMessage=message CommentSignal=signal CommentEnvVar=envVar",
}

// "GoStruct LeanType Field=proj ..." (package dbc); every field the exporter touches must be listed
var xpStructTable = []string{
	"Signal DbcSignal Name=name IsMultiplexor=isMultiplexor IsMultiplexed=isMultiplexed MuxSwitchValue=muxSwitchValue Size=size StartBit=startBit ByteOrder=byteOrder ValueType=valueType Factor=factor Offset=offset Min=min Max=max Unit=unit Receivers=receivers",
	"Message DbcMessage ID=id Name=name Size=size Transmitter=transmitter Signals=signals",
	"Comment Acme.Dbc.Comment Kind=kind Text=text NodeName=nodeName MessageID=messageID SignalName=signalName EnvVarName=envVarName",
	"ValueEncoding Acme.Dbc.ValueEncoding Kind=kind MessageID=messageID SignalName=signalName EnvVarName=envVarName Values=values",
	"ValueDescription Acme.Dbc.ValueDescription ID=id Name=name",
	"ExtendedMux Acme.Dbc.ExtendedMux MessageID=messageID MultiplexorName=multiplexorName MultiplexedName=multiplexedName Ranges=ranges",
	"ExtendedMuxRange Acme.Dbc.ExtendedMuxRange From=from_ To=to",
	"Nodes DbcNodes Names=names",
	"Attribute DbcAttribute Kind=kind Type=type Name=name MinInt=minInt MaxInt=maxInt MinHex=minHex MaxHex=maxHex MinFloat=minFloat MaxFloat=maxFloat EnumValues=enumValues",
	"AttributeDefault DbcAttributeDefault Type=type AttributeName=attributeName ValueString=valueString ValueInt=valueInt ValueHex=valueHex ValueFloat=valueFloat",
	"AttributeValue DbcAttributeValue AttributeKind=attributeKind Type=type AttributeName=attributeName NodeName=nodeName MessageID=messageID SignalName=signalName EnvVarName=envVarName ValueString=valueString ValueInt=valueInt ValueHex=valueHex ValueFloat=valueFloat",
	"ValueTable Acme.Dbc.ValueTable Name=name Values=values",
}

// e.dbcFile.<Field> ↦ field of St
var xpFileFields = map[string]string{"Comments": "comments", "ValueEncodings": "valueEncodings",
	"ExtendedMuxes": "extendedMuxes", "Messages": "messages", "ValueTables": "valueTables",
	"Attributes": "attributes", "AttributeDefaults": "attributeDefaults"}

// e.<field> (a map used as a set of names) ↦ field of St
var xpRecvMaps = map[string]bool{"sigEnums": true, "attNames": true, "nodeAttNames": true, "msgAttNames": true, "sigAttNames": true}

// e.dbcFile.<Field> = p (a pointer section, assigned once) ↦ field of St (an Option)
var xpFilePtrFields = map[string]string{"Nodes": "nodes"}

// the slice: what seeds a skipped variable, and the sinks that are skipped
var xpSliceSeeds = []string{"AttributeAssignments", "newAttributeAssignment"}
var xpSliceNew = "AttributeValue" // new(dbc.AttributeValue)
var xpSliceSinks = map[string]bool{"AttributeValues": true}
var xpSliceCalls = map[string]bool{"exportAttributeAssignment": true}

var xpReserved = map[string]string{"from": "from_", "to": "to_", "end": "end_", "at": "at_", "at_": "", "then": "then_",
	"fun": "fun_", "match": "match_", "with": "with_", "do": "do_", "in": "in_", "open": "open_", "let": "let_",
	"have": "have_", "show": "show_", "st": "", "pm": "", "clr": "", "rest_": "", "r_": "", "l_": "", "x_": "", "h_": "", "v_": ""}

// ---------------------------------------------------------------- translator state

type xpErr struct {
	pos token.Pos
	msg string
}

type xpEnum struct {
	lean   string
	consts map[string]string
}

type xpStruct struct {
	lean   string
	fields map[string]string
}

type xpSig struct { // signature of a translated function, by a syntactic pre-pass
	decl     *ast.FuncDecl
	writesSt bool
	mayPanic bool
	usesClr  bool
	usesPm   bool
	usesSort string // element type of the one `slices.SortFunc` of the function ("" = none)
	written  map[int]bool // pointer parameters written
	out      map[int]bool // ... and returned
	nLoop    int
}

type xpVar struct {
	lean    string
	kind    string // receiver kind of a model object, "" otherwise
	escaped bool   // pointer appended to an output list
	alias   bool   // aliases e.currDBCMsg
}

type xpUnit struct {
	name  string
	text  string
	calls map[string]bool
	term  string // measure when the unit is in a recursive group
	wf    string // termination clause needed even outside a mutual block
}

type xptr struct {
	info    *types.Info
	root    *types.Package
	dbc     *types.Package
	enums   map[string]*xpEnum
	structs map[string]*xpStruct
	sigs    map[string]*xpSig
	units   []*xpUnit
	skipped []string
	src     []byte
	file    *ast.File
	// per function
	cur     *xpSig
	curName string
	vars    map[types.Object]*xpVar
	taint   map[types.Object]bool
	calls   map[string]bool
	msgPar  string
	hoisted map[*ast.TypeAssertExpr]string
}

func (t *xptr) fail(n ast.Node, format string, a ...any) {
	var p token.Pos
	if n != nil {
		p = n.Pos()
	}
	panic(xpErr{p, fmt.Sprintf(format, a...)})
}

func writeExporter(out string, root, dbc *packages.Package) {
	defer func() {
		if r := recover(); r != nil {
			if e, ok := r.(xpErr); ok {
				where := xpSrcFile
				if e.pos.IsValid() {
					p := fset.Position(e.pos)
					where = fmt.Sprintf("%s:%d", filepath.Base(p.Filename), p.Line)
				}
				fmt.Fprintf(os.Stderr, "extract/exporter: %s: unsupported by the translator: %s\n", where, e.msg)
				os.Exit(1)
			}
			panic(r)
		}
	}()
	t := &xptr{info: root.TypesInfo, root: root.Types, dbc: dbc.Types, enums: map[string]*xpEnum{},
		structs: map[string]*xpStruct{}, sigs: map[string]*xpSig{}}
	for _, f := range inFiles(root, []string{xpSrcFile}) {
		t.file = f
	}
	if t.file == nil {
		t.fail(nil, "file %s not found", xpSrcFile)
	}
	src, err := os.ReadFile(fset.Position(t.file.Pos()).Filename)
	if err != nil {
		t.fail(nil, "cannot read the source: %v", err)
	}
	t.src = src
	t.loadTables()
	t.prepass()
	for _, r := range xpRoots {
		if t.sigs[r] == nil {
			t.fail(nil, "root function %s not found", r)
		}
	}
	names := []string{}
	for n := range t.sigs {
		names = append(names, n)
	}
	sort.Slice(names, func(i, j int) bool { return t.sigs[names[i]].decl.Pos() < t.sigs[names[j]].decl.Pos() })
	for _, n := range names {
		t.function(n)
	}
	text := t.assemble()
	if err := os.WriteFile(filepath.Join(out, xpOutFile), []byte(text), 0o644); err != nil {
		fmt.Fprintln(os.Stderr, "extract/exporter:", err)
		os.Exit(1)
	}
}

// ---------------------------------------------------------------- tables

func (t *xptr) loadTables() {
	for _, row := range xpEnumTable {
		f := strings.Fields(row)
		pkg, name := t.root, f[0]
		if strings.HasPrefix(name, "dbc.") {
			pkg, name = t.dbc, name[4:]
		}
		obj := pkg.Scope().Lookup(name)
		if obj == nil {
			t.fail(nil, "enum type %s not found", f[0])
		}
		e := &xpEnum{lean: f[1], consts: map[string]string{}}
		for _, kv := range f[2:] {
			p := strings.SplitN(kv, "=", 2)
			c, ok := pkg.Scope().Lookup(p[0]).(*types.Const)
			if !ok || !types.Identical(c.Type(), obj.Type()) {
				t.fail(nil, "constant %s of %s not found", p[0], f[0])
			}
			e.consts[p[0]] = p[1]
		}
		// every constant of the type is in the table, and the first listed one is the zero value
		for _, n := range pkg.Scope().Names() {
			if c, ok := pkg.Scope().Lookup(n).(*types.Const); ok && types.Identical(c.Type(), obj.Type()) {
				if _, ok := e.consts[n]; !ok {
					t.fail(nil, "constant %s of type %s is not in the translator's table", n, f[0])
				}
			}
		}
		first := strings.SplitN(f[2], "=", 2)[0]
		if v, ok := constant.Int64Val(pkg.Scope().Lookup(first).(*types.Const).Val()); !ok || v != 0 {
			t.fail(nil, "constant %s is not the zero value of %s", first, f[0])
		}
		t.enums[f[0]] = e
	}
	for _, row := range xpStructTable {
		f := strings.Fields(row)
		obj := t.dbc.Scope().Lookup(f[0])
		if obj == nil {
			t.fail(nil, "struct dbc.%s not found", f[0])
		}
		st, ok := obj.Type().Underlying().(*types.Struct)
		if !ok {
			t.fail(nil, "dbc.%s is not a struct", f[0])
		}
		s := &xpStruct{lean: f[1], fields: map[string]string{}}
		for _, kv := range f[2:] {
			p := strings.SplitN(kv, "=", 2)
			s.fields[p[0]] = p[1]
		}
		for i := 0; i < st.NumFields(); i++ {
			n := st.Field(i).Name()
			if n == "withLocation" || st.Field(i).Embedded() {
				continue
			}
			if _, ok := s.fields[n]; !ok {
				t.fail(nil, "field %s of dbc.%s is not in the translator's table", n, f[0])
			}
		}
		if len(s.fields) != xpCountFields(st) {
			t.fail(nil, "the table of dbc.%s lists a field the struct does not have", f[0])
		}
		t.structs[f[0]] = s
	}
}

func xpCountFields(st *types.Struct) int {
	n := 0
	for i := 0; i < st.NumFields(); i++ {
		if st.Field(i).Name() == "withLocation" || st.Field(i).Embedded() {
			continue
		}
		n++
	}
	return n
}

// ---------------------------------------------------------------- types

func (t *xptr) typeName(ty types.Type) string {
	return types.TypeString(types.Unalias(ty), func(p *types.Package) string {
		if p == t.dbc {
			return "dbc"
		}
		return ""
	})
}

// dbcStruct: the struct behind *dbc.T, or nil
func (t *xptr) dbcStruct(ty types.Type) *xpStruct {
	if p, ok := types.Unalias(ty).(*types.Pointer); ok {
		if nm, ok := types.Unalias(p.Elem()).(*types.Named); ok && nm.Obj().Pkg() == t.dbc {
			return t.structs[nm.Obj().Name()]
		}
	}
	return nil
}

func (t *xptr) leanType(ty types.Type, at ast.Node) string {
	ty = types.Unalias(ty)
	name := t.typeName(ty)
	if m, ok := xpModelTypes[name]; ok {
		return m[1]
	}
	if e, ok := t.enums[name]; ok {
		return e.lean
	}
	if s := t.dbcStruct(ty); s != nil {
		return s.lean
	}
	switch x := ty.(type) {
	case *types.Basic:
		switch x.Kind() {
		case types.String, types.UntypedString:
			return "String"
		case types.Float64:
			return "Rat"
		case types.Int, types.UntypedInt:
			return "Int"
		case types.Uint32:
			return "Nat"
		case types.Bool, types.UntypedBool:
			return "Bool"
		}
	case *types.Slice:
		return "List " + xpParen(t.leanType(x.Elem(), at))
	case *types.Map:
		return "List (" + t.leanType(x.Key(), at) + " × " + t.leanType(x.Elem(), at) + ")"
	case *types.Named:
		if b, ok := x.Underlying().(*types.Basic); ok && b.Kind() == types.Uint32 {
			return "Nat"
		}
	}
	t.fail(at, "type %s is outside the translated subset", name)
	return ""
}

func xpParen(s string) string {
	if xpIsAtom(s) {
		return s
	}
	return "(" + s + ")"
}

func (t *xptr) kindOfType(ty types.Type) string {
	if m, ok := xpModelTypes[t.typeName(ty)]; ok {
		return m[0]
	}
	if sl, ok := types.Unalias(ty).(*types.Slice); ok {
		if k := t.kindOfType(sl.Elem()); k != "" {
			return "[]" + k
		}
	}
	return ""
}

func (t *xptr) isInt(e ast.Expr) bool {
	b, ok := types.Unalias(t.info.TypeOf(e)).Underlying().(*types.Basic)
	return ok && (b.Kind() == types.Int || b.Kind() == types.UntypedInt)
}

func (t *xptr) isU32(e ast.Expr) bool {
	b, ok := types.Unalias(t.info.TypeOf(e)).Underlying().(*types.Basic)
	return ok && b.Kind() == types.Uint32
}

func (t *xptr) isBool(e ast.Expr) bool {
	b, ok := types.Unalias(t.info.TypeOf(e)).Underlying().(*types.Basic)
	return ok && (b.Kind() == types.Bool || b.Kind() == types.UntypedBool)
}

func (t *xptr) zero(ty types.Type, at ast.Node) string {
	switch x := types.Unalias(ty).Underlying().(type) {
	case *types.Slice, *types.Map:
		return "[]"
	case *types.Basic:
		switch x.Kind() {
		case types.String:
			return "\"\""
		case types.Int, types.Uint32:
			return "0"
		case types.Bool:
			return "false"
		}
	}
	t.fail(at, "zero value of %s", ty.String())
	return ""
}

// ---------------------------------------------------------------- pre-pass: signatures

// recvCall: `e.m(args)` with e the receiver of the current method
func (t *xptr) recvCall(c *ast.CallExpr) (string, bool) {
	if id, ok := c.Fun.(*ast.Ident); ok && xpFreeFuncs[id.Name] {
		if f, ok := t.info.Uses[id].(*types.Func); ok && f.Pkg() == t.root {
			return id.Name, true
		}
	}
	if s, ok := c.Fun.(*ast.SelectorExpr); ok {
		if id, ok := s.X.(*ast.Ident); ok && t.isRecv(id) {
			return s.Sel.Name, true
		}
	}
	return "", false
}

func (t *xptr) isRecv(id *ast.Ident) bool {
	v, ok := t.info.Uses[id].(*types.Var)
	if !ok {
		return false
	}
	p, ok := types.Unalias(v.Type()).(*types.Pointer)
	if !ok {
		return false
	}
	nm, ok := types.Unalias(p.Elem()).(*types.Named)
	return ok && nm.Obj().Name() == xpRecv && nm.Obj().Pkg() == t.root
}

func xpRootIdent(e ast.Expr) *ast.Ident {
	for {
		switch x := e.(type) {
		case *ast.Ident:
			return x
		case *ast.SelectorExpr:
			e = x.X
		case *ast.IndexExpr:
			e = x.X
		case *ast.ParenExpr:
			e = x.X
		case *ast.StarExpr:
			e = x.X
		default:
			return nil
		}
	}
}

func (t *xptr) prepass() {
	decls := map[string]*ast.FuncDecl{}
	for _, d := range t.file.Decls {
		if fd, ok := d.(*ast.FuncDecl); ok && fd.Body != nil && fd.Recv == nil && xpFreeFuncs[fd.Name.Name] {
			decls[fd.Name.Name] = fd
		}
		if fd, ok := d.(*ast.FuncDecl); ok && fd.Body != nil && fd.Recv != nil && len(fd.Recv.List) == 1 {
			if st, ok := fd.Recv.List[0].Type.(*ast.StarExpr); ok {
				if id, ok := st.X.(*ast.Ident); ok && id.Name == xpRecv {
					decls[fd.Name.Name] = fd
				}
			}
		}
	}
	// reachable from the roots through non-sliced calls
	var visit func(n string, at ast.Node)
	visit = func(n string, at ast.Node) {
		if t.sigs[n] != nil {
			return
		}
		fd := decls[n]
		if fd == nil {
			t.fail(at, "method %s of *%s not found in %s", n, xpRecv, xpSrcFile)
		}
		t.sigs[n] = &xpSig{decl: fd, written: map[int]bool{}, out: map[int]bool{}}
		ast.Inspect(fd.Body, func(x ast.Node) bool {
			if c, ok := x.(*ast.CallExpr); ok {
				if m, ok := t.recvCall(c); ok && !xpSliceCalls[m] {
					visit(m, c)
				}
			}
			return true
		})
	}
	for _, r := range xpRoots {
		visit(r, nil)
	}
	// direct facts
	for _, s := range t.sigs {
		params := xpParamObjs(t.info, s.decl)
		ast.Inspect(s.decl.Body, func(x ast.Node) bool {
			switch y := x.(type) {
			case *ast.AssignStmt:
				for _, l := range y.Lhs {
					r := xpRootIdent(l)
					if r == nil {
						continue
					}
					if t.isRecv(r) {
						if sel, ok := l.(*ast.SelectorExpr); !ok || !xpSliceSinks[sel.Sel.Name] {
							s.writesSt = true
						}
					}
					if _, isId := l.(*ast.Ident); !isId {
						for i, p := range params {
							if t.info.Uses[r] == p && t.dbcStruct(p.Type()) != nil {
								s.written[i] = true
							}
						}
					}
				}
			case *ast.TypeAssertExpr:
				s.mayPanic = true
			case *ast.IndexExpr:
				if _, ok := types.Unalias(t.info.TypeOf(y.X)).Underlying().(*types.Slice); ok {
					s.mayPanic = true // refined in function(): the make/range idiom is recognised first
				}
			case *ast.CallExpr:
				if id, ok := y.Fun.(*ast.Ident); ok && id.Name == "clearSpaces" {
					s.usesClr = true
				}
				if exprStr(y.Fun) == "slices.SortFunc" && len(y.Args) == 2 {
					if s.usesSort != "" {
						t.fail(y, "two sorts in one function")
					}
					sl, ok := types.Unalias(t.info.TypeOf(y.Args[0])).Underlying().(*types.Slice)
					if !ok {
						t.fail(y, "slices.SortFunc of a non-slice")
					}
					s.usesSort = t.leanType(sl.Elem(), y)
				}
			case *ast.SelectorExpr:
				if y.Sel.Name == "ParentMessage" || y.Sel.Name == "parentMsg" {
					s.usesPm = true
				}
			}
			return true
		})
	}
	// the make / range idiom does not index
	for _, s := range t.sigs {
		if t.mapIdiom(s.decl.Body.List) >= 0 {
			n := 0
			ast.Inspect(s.decl.Body, func(x ast.Node) bool {
				if ix, ok := x.(*ast.IndexExpr); ok {
					if _, ok := types.Unalias(t.info.TypeOf(ix.X)).Underlying().(*types.Slice); ok {
						n++
					}
				}
				return true
			})
			if n == 1 {
				s.mayPanic = false
			}
		}
	}
	// propagate along calls
	for changed := true; changed; {
		changed = false
		for _, s := range t.sigs {
			ast.Inspect(s.decl.Body, func(x ast.Node) bool {
				c, ok := x.(*ast.CallExpr)
				if !ok {
					return true
				}
				m, ok := t.recvCall(c)
				if !ok || t.sigs[m] == nil {
					return true
				}
				g := t.sigs[m]
				upd := func(dst *bool, v bool) {
					if v && !*dst {
						*dst = true
						changed = true
					}
				}
				upd(&s.writesSt, g.writesSt)
				upd(&s.mayPanic, g.mayPanic)
				upd(&s.usesClr, g.usesClr)
				upd(&s.usesPm, t.needsPm(g))
				params := xpParamObjs(t.info, s.decl)
				for j, a := range c.Args {
					if g.written[j] {
						if id, ok := a.(*ast.Ident); ok {
							for i, p := range params {
								if t.info.Uses[id] == p && !s.written[i] {
									s.written[i] = true
									changed = true
								}
							}
						}
					}
				}
				return true
			})
		}
	}
	// a written pointer parameter is returned when some caller reads the argument after the call
	for changed := true; changed; {
		changed = false
		for _, s := range t.sigs {
			var loops []ast.Node
			var walk func(n ast.Node)
			walk = func(n ast.Node) {
				ast.Inspect(n, func(x ast.Node) bool {
					if x == nil || x == n {
						return true
					}
					switch y := x.(type) {
					case *ast.RangeStmt, *ast.ForStmt:
						loops = append(loops, y)
						walk(y)
						loops = loops[:len(loops)-1]
						return false
					case *ast.CallExpr:
						m, ok := t.recvCall(y)
						if !ok || t.sigs[m] == nil {
							return true
						}
						g := t.sigs[m]
						for j, a := range y.Args {
							id, isId := a.(*ast.Ident)
							if !g.written[j] || g.out[j] || !isId {
								continue
							}
							obj := t.info.Uses[id]
							live := false
							ast.Inspect(s.decl.Body, func(z ast.Node) bool {
								if u, ok := z.(*ast.Ident); ok && t.info.Uses[u] == obj && u.Pos() > y.End() {
									live = true
								}
								return true
							})
							for _, l := range loops {
								if obj.Pos() < l.Pos() {
									live = true
								}
							}
							// handed on as a returned parameter of the caller
							for i, p := range xpParamObjs(t.info, s.decl) {
								if p == obj && s.out[i] {
									live = true
								}
							}
							if live {
								g.out[j] = true
								changed = true
							}
						}
					}
					return true
				})
			}
			walk(s.decl.Body)
		}
	}
}

// needsPm: a caller has to hand the parent message to g (g reads it and has no *Message parameter)
func (t *xptr) needsPm(g *xpSig) bool {
	if !g.usesPm {
		return false
	}
	for _, p := range xpParamObjs(t.info, g.decl) {
		if t.typeName(p.Type()) == "*Message" {
			return false
		}
	}
	return true
}

// sortedValuesAt: list[i..i+2] is
//
//	x := make([]T, 0, len(m)); for _, v := range m { x = append(x, v) }; slices.SortFunc(x, func..)
//
// with m a map of the exporter: the values of the map, sorted
func (t *xptr) sortedValuesAt(list []ast.Stmt, i int) (x *ast.Ident, m ast.Expr, ok bool) {
	if i+2 >= len(list) {
		return
	}
	as, ok1 := list[i].(*ast.AssignStmt)
	rs, ok2 := list[i+1].(*ast.RangeStmt)
	es, ok3 := list[i+2].(*ast.ExprStmt)
	if !ok1 || !ok2 || !ok3 || as.Tok != token.DEFINE || len(as.Lhs) != 1 || len(as.Rhs) != 1 {
		return
	}
	mk, ok1 := as.Rhs[0].(*ast.CallExpr)
	if !ok1 || len(mk.Args) != 3 || exprStr(mk.Fun) != "make" || exprStr(mk.Args[1]) != "0" {
		return
	}
	if _, isSlice := mk.Args[0].(*ast.ArrayType); !isSlice {
		return
	}
	if _, isMap := types.Unalias(t.info.TypeOf(rs.X)).Underlying().(*types.Map); !isMap {
		return
	}
	if exprStr(mk.Args[2]) != "len("+exprStr(rs.X)+")" || rs.Tok != token.DEFINE || rs.Value == nil ||
		(rs.Key != nil && exprStr(rs.Key) != "_") || len(rs.Body.List) != 1 {
		return
	}
	xn := exprStr(as.Lhs[0])
	if exprStr(rs.Body.List[0]) != xn+" = append("+xn+", "+exprStr(rs.Value)+")" {
		return
	}
	call, ok1 := es.X.(*ast.CallExpr)
	if !ok1 || exprStr(call.Fun) != "slices.SortFunc" || len(call.Args) != 2 || exprStr(call.Args[0]) != xn {
		return
	}
	if _, isLit := call.Args[1].(*ast.FuncLit); !isLit {
		return
	}
	return as.Lhs[0].(*ast.Ident), rs.X, true
}

func xpParamObjs(info *types.Info, fd *ast.FuncDecl) []*types.Var {
	var res []*types.Var
	for _, f := range fd.Type.Params.List {
		for _, n := range f.Names {
			res = append(res, info.Defs[n].(*types.Var))
		}
	}
	return res
}

// mapIdiom: index i such that list[i] is `x := make([]T, len(l))` and list[i+1] is
// `for k, v := range l { x[k] = E }`; -1 if there is none
func (t *xptr) mapIdiom(list []ast.Stmt) int {
	for i := 0; i+1 < len(list); i++ {
		if _, _, _, _, ok := t.mapIdiomAt(list, i); ok {
			return i
		}
	}
	return -1
}

func (t *xptr) mapIdiomAt(list []ast.Stmt, i int) (x *ast.Ident, l ast.Expr, v *ast.Ident, e ast.Expr, ok bool) {
	if i+1 >= len(list) {
		return
	}
	as, ok1 := list[i].(*ast.AssignStmt)
	rs, ok2 := list[i+1].(*ast.RangeStmt)
	if !ok1 || !ok2 || as.Tok != token.DEFINE || len(as.Lhs) != 1 || len(as.Rhs) != 1 {
		return
	}
	mk, ok1 := as.Rhs[0].(*ast.CallExpr)
	if !ok1 || len(mk.Args) != 2 {
		return
	}
	if id, ok1 := mk.Fun.(*ast.Ident); !ok1 || id.Name != "make" {
		return
	}
	if _, ok1 := mk.Args[0].(*ast.ArrayType); !ok1 {
		return
	}
	ln, ok1 := mk.Args[1].(*ast.CallExpr)
	if !ok1 || len(ln.Args) != 1 {
		return
	}
	if id, ok1 := ln.Fun.(*ast.Ident); !ok1 || id.Name != "len" {
		return
	}
	if exprStr(ln.Args[0]) != exprStr(rs.X) || rs.Tok != token.DEFINE || rs.Key == nil || rs.Value == nil || len(rs.Body.List) != 1 {
		return
	}
	st, ok1 := rs.Body.List[0].(*ast.AssignStmt)
	if !ok1 || st.Tok != token.ASSIGN || len(st.Lhs) != 1 || len(st.Rhs) != 1 {
		return
	}
	ix, ok1 := st.Lhs[0].(*ast.IndexExpr)
	if !ok1 || exprStr(ix.X) != exprStr(as.Lhs[0]) || exprStr(ix.Index) != exprStr(rs.Key) {
		return
	}
	// E mentions neither the key nor the slice being filled
	bad := false
	xo := t.info.Defs[as.Lhs[0].(*ast.Ident)]
	ko := t.info.Defs[rs.Key.(*ast.Ident)]
	ast.Inspect(st.Rhs[0], func(n ast.Node) bool {
		if id, ok := n.(*ast.Ident); ok && (t.info.Uses[id] == xo || t.info.Uses[id] == ko) {
			bad = true
		}
		return true
	})
	if bad {
		return
	}
	return as.Lhs[0].(*ast.Ident), rs.X, rs.Value.(*ast.Ident), st.Rhs[0], true
}

// xpIsAtom: the Lean text needs no parentheses as an argument
func xpIsAtom(s string) bool {
	if !strings.ContainsAny(s, " ") {
		return true
	}
	open := map[byte]byte{'(': ')', '[': ']', '{': '}'}
	cl, ok := open[s[0]]
	if !ok || s[len(s)-1] != cl {
		return false
	}
	depth := 0
	inStr := false
	for i := 0; i < len(s); i++ {
		c := s[i]
		if inStr {
			if c == '\\' {
				i++
			} else if c == '"' {
				inStr = false
			}
			continue
		}
		switch c {
		case '"':
			inStr = true
		case '(', '[', '{':
			depth++
		case ')', ']', '}':
			depth--
			if depth == 0 && i != len(s)-1 {
				return false
			}
		}
	}
	return depth == 0
}
