package main

// Translator stage 13 (C04 / C05 / C06): the registry bookkeeping of the bus / node-interface /
// node layer, regenerated from go/ast + go/types on every run into Acme/Gen/Registry.lean
// (namespace Acme.Gen.R).
//
// State model.  The objects the methods touch form a small heap `H` (hand-written record types in
// lean/Acme/Core/GenRegistryPrelude.lean): one AMap per struct kind, keyed by entity id.  A Go
// pointer is the key of its target: `Option Nat` when it may be nil, `Nat` once it is known
// non-nil (receiver, after `if x == nil { return }`, after a successful dereference); `x.entityID`
// IS the key of x; a registry (`*set[K,V]`) is an association list `GoMap K V`, its pointer values
// are non-nil addresses (checked at every `add`).  Translation is state-passing: every field write
// and every mutating set call reads the record from the CURRENT heap, updates it and binds a new
// heap; calls thread the heap.  A dereference of a pointer not known non-nil is `Res.panic`, an
// address that is not in the heap is `Res.dangling` (no Go counterpart).  Errors are reduced to
// the sentinel cause + the Name of an ArgumentError; `x.errorf(e)` and the other wrapper literals
// keep the cause.  `for … range m.getValues() / entries()` iterates over the association list; a
// loop over a map snapshot with a `return` inside iterates over a list PARAMETER `ordN` instead
// (the theorem quantifies over every order).  Control flow is emitted in continuation style: the
// code after an `if` is duplicated into the branches that reach it, a loop is a structurally
// recursive definition `F_loopN` whose end calls `F_afterN`.
//
// Anything outside the subset is a loud failure (file:line, reason, exit 1).

import (
	"fmt"
	"go/ast"
	"go/token"
	"go/types"
	"os"
	"path/filepath"
	"sort"
	"strings"

	"golang.org/x/tools/go/packages"
)

func init() { extraWriters = append(extraWriters, writeRegistry) }

// methods translated, in emission order (callees first)
var regWanted = []string{
	"set.verifyKeyUnique", "set.add", "set.remove", "set.hasKey", "set.modifyKey", "set.getValue", "set.size", "set.clear",
	"Bus.verifyNodeName", "Bus.verifyNodeID", "Bus.verifyStaticCANID", "Bus.verifyMessageSize",
	"Bus.AddNodeInterface", "Bus.RemoveNodeInterface", "Bus.RemoveAllNodeInterfaces", "Bus.UpdateName",
	"NodeInterface.verifyMessageName", "NodeInterface.verifyMessageID", "NodeInterface.verifyStaticCANID",
	"NodeInterface.verifyMessageSize", "NodeInterface.addReceivedMessage", "NodeInterface.removeReceivedMessage",
	"NodeInterface.AddSentMessage", "NodeInterface.RemoveSentMessage", "NodeInterface.RemoveAllSentMessages",
	"NodeInterface.AddReceivedMessage", "NodeInterface.RemoveReceivedMessage",
	"Node.UpdateName", "Node.UpdateID",
}

// niladic single-`return` helpers that are inlined at their call sites
var regInlined = map[string]bool{"Bus.hasParentNetwork": true, "NodeInterface.hasParentBus": true}

// opaque cause-preserving wrappers: `x.errorf(e)` has the cause of e
var regErrorf = map[string]bool{"Bus.errorf": true, "NodeInterface.errorf": true, "Node.errorf": true}

// writes that are not part of the registry state (error-location bookkeeping of Node.errorf)
var regIgnoredWrites = map[string]bool{"Node.intErrNum": true}

type rkind int

const (
	rInt rkind = iota
	rNat
	rStr
	rBool
	rPtr  // Option Nat, target in heap component .heap
	rAddr // Nat, known non-nil
	rMap
	rSlice
	rErr  // Option Err
	rErrV // Err (known non-nil)
	rTParam
)

type rtype struct {
	k         rkind
	heap      string // struct name for rPtr / rAddr
	key, elem *rtype
	name      string // rTParam
}

func (t rtype) lean() string {
	switch t.k {
	case rInt:
		return "Int"
	case rNat, rAddr:
		return "Nat"
	case rStr:
		return "String"
	case rBool:
		return "Bool"
	case rPtr:
		return "Option Nat"
	case rMap:
		return "GoMap " + t.key.leanA() + " " + t.elem.leanA()
	case rSlice:
		return "List " + t.elem.leanA()
	case rErr:
		return "Option Err"
	case rErrV:
		return "Err"
	case rTParam:
		return t.name
	}
	return "?"
}

func (t rtype) leanA() string {
	s := t.lean()
	if strings.Contains(s, " ") {
		return "(" + s + ")"
	}
	return s
}

type rheapStruct struct {
	comp   string            // field of H
	fields map[string]string // Go field -> Lean type as declared in the prelude (checked)
}

// the heap layout of GenRegistryPrelude.lean; every field is checked against go/types
var regHeap = map[string]rheapStruct{
	"Network": {"nets", map[string]string{"busNames": "GoMap String Nat"}},
	"Bus": {"buses", map[string]string{"name": "String", "parentNetwork": "Option Nat",
		"nodeInts": "GoMap Nat Nat", "nodeNames": "GoMap String Nat", "nodeIDs": "GoMap Nat Nat",
		"messageStaticCANIDs": "GoMap Nat Nat", "typ": "Int"}},
	"Node": {"nodes", map[string]string{"name": "String", "id": "Nat", "interfaces": "List (Option Nat)"}},
	"NodeInterface": {"ifaces", map[string]string{"parentBus": "Option Nat", "sentMessages": "GoMap Nat Nat",
		"sentMessageNames": "GoMap String Nat", "sentMessageIDs": "GoMap Nat Nat",
		"sentMessageStaticCANIDs": "GoMap Nat Nat", "receivedMessages": "GoMap Nat Nat",
		"number": "Int", "node": "Option Nat"}},
	"Message": {"msgs", map[string]string{"name": "String", "id": "Nat", "hasStaticCANID": "Bool",
		"staticCANID": "Nat", "sizeByte": "Int", "senderNodeInt": "Option Nat", "receivers": "GoMap Nat Nat"}},
}

var regLeanKeywords = map[string]bool{"end": true, "from": true, "at": true, "have": true, "show": true, "then": true,
	"else": true, "if": true, "fun": true, "let": true, "match": true, "with": true, "do": true, "in": true,
	"open": true, "def": true, "by": true, "where": true, "h": true, "rest_": true, "Err": true, "Cause": true}

type rfail struct{ msg string }

func rdie(pos token.Pos, fn, format string, a ...any) {
	p := fset.Position(pos)
	panic(rfail{fmt.Sprintf("extract/registry: %s:%d: method %s: unsupported by the translator: %s",
		filepath.Base(p.Filename), p.Line, fn, fmt.Sprintf(format, a...))})
}

type rgen struct {
	pkg     *packages.Package
	info    *types.Info
	decls   map[string]*ast.FuncDecl
	writer  map[string]bool
	sigs    map[string]*rsig
	causes  map[string]bool
	out     strings.Builder
	checked map[string]bool
}

type rsig struct {
	lean    string
	isSet   bool
	writer  bool
	params  []rbind
	results []rtype
	ords    []rbind
}

type rbind struct {
	obj    types.Object
	goName string
	term   string
	t      rtype
	unset  bool // error wrapper under construction without a cause yet
	zero   bool // the zero value of a comma-ok read that missed
}

type renv struct {
	vars   []rbind
	heap   string
	cache  map[string]string // comp/addr -> record variable (valid for .heap)
	nonnil map[string]string // Option term -> address variable
	depth  int
	loop   *rloop
}

type rloop struct {
	name string
	vars []rbind // the parameters of the loop definition, in order
}

func (e *renv) clone() *renv {
	n := &renv{heap: e.heap, depth: e.depth, loop: e.loop, cache: map[string]string{}, nonnil: map[string]string{}}
	n.vars = append(n.vars, e.vars...)
	for k, v := range e.cache {
		n.cache[k] = v
	}
	for k, v := range e.nonnil {
		n.nonnil[k] = v
	}
	return n
}

func (e *renv) ind() string { return strings.Repeat("  ", e.depth+1) }

func (e *renv) deeper() *renv { n := e.clone(); n.depth++; return n }

// one function under translation (with its auxiliary loop / after definitions)
type rfn struct {
	g       *rgen
	key     string // Type.method
	sig     *rsig
	decl    *ast.FuncDecl
	used    map[string]int
	defs    []string
	loops   int
	ordOf   map[*ast.RangeStmt]int
	recv    string
	recvObj types.Object
	tparams string
}

func (f *rfn) die(pos token.Pos, format string, a ...any) { rdie(pos, f.key, format, a...) }

func (f *rfn) fresh(base string) string {
	if regLeanKeywords[base] {
		base += "_"
	}
	for {
		n := f.used[base]
		f.used[base] = n + 1
		name := base
		if n > 0 {
			name = fmt.Sprintf("%s_%d", base, n)
		}
		if n > 0 && f.used[name] > 0 {
			continue
		}
		if n > 0 {
			f.used[name] = 1
		}
		return name
	}
}

func writeRegistry(out string, root, dbc *packages.Package) {
	path := filepath.Join(out, "Registry.lean")
	os.Remove(path)
	defer func() {
		if r := recover(); r != nil {
			if rf, ok := r.(rfail); ok {
				fmt.Fprintln(os.Stderr, rf.msg)
				os.Exit(1)
			}
			panic(r)
		}
	}()
	g := &rgen{pkg: root, info: root.TypesInfo, decls: map[string]*ast.FuncDecl{}, writer: map[string]bool{},
		sigs: map[string]*rsig{}, causes: map[string]bool{}, checked: map[string]bool{}}
	for _, file := range root.Syntax {
		base := filepath.Base(fset.Position(file.Pos()).Filename)
		if strings.HasSuffix(base, "_test.go") {
			continue
		}
		for _, d := range file.Decls {
			if fd, ok := d.(*ast.FuncDecl); ok && fd.Body != nil && fd.Recv != nil {
				g.decls[funcName(fd)] = fd
			}
		}
	}
	for _, w := range regWanted {
		if g.decls[w] == nil {
			panic(rfail{"extract/registry: method " + w + " not found in package acmelib"})
		}
	}
	for k := range regInlined {
		if g.decls[k] == nil {
			panic(rfail{"extract/registry: helper " + k + " not found in package acmelib"})
		}
	}
	g.checkHeap()
	g.effects()
	var bodies []string
	for _, w := range regWanted {
		bodies = append(bodies, g.translate(w))
	}
	var causes []string
	for c := range g.causes {
		causes = append(causes, c)
	}
	sort.Strings(causes)

	var b strings.Builder
	b.WriteString("/- GENERATED by /verif/tools/extract (kernels_registry*.go) from /repo — do not edit.\n")
	b.WriteString("   Registry bookkeeping of helpers.go (set), bus.go, node_iterface.go, node.go, translated\n")
	b.WriteString("   state-passing over the heap of Acme/Core/GenRegistryPrelude.lean. -/\n")
	b.WriteString("import Acme.Core.GenRegistryPrelude\n\nset_option linter.unusedVariables false\n\nnamespace Acme.Gen.R\nopen Acme Acme.RegSem\n\n")
	b.WriteString("/-- the error sentinels the translated methods return -/\ninductive Cause where\n")
	for _, c := range causes {
		b.WriteString("  | " + c + "\n")
	}
	b.WriteString("  deriving Repr, DecidableEq, Inhabited\n\n")
	b.WriteString("/-- an error value reduced to its sentinel cause and the Name of an ArgumentError -/\n")
	b.WriteString("structure Err where\n  cause : Cause\n  arg : String\n  deriving Repr, DecidableEq, Inhabited\n\n")
	for _, s := range bodies {
		b.WriteString(s)
	}
	b.WriteString("/-- (method, Lean definition, writes the heap, order parameters) -/\n")
	b.WriteString("def methods : List (String × String × Bool × Nat) := [\n")
	for i, w := range regWanted {
		s := g.sigs[w]
		sep := ","
		if i+1 == len(regWanted) {
			sep = ""
		}
		b.WriteString(fmt.Sprintf("  (%s, %s, %v, %d)%s\n", leanStr(w), leanStr(s.lean), s.writer, len(s.ords), sep))
	}
	b.WriteString("]\n\nend Acme.Gen.R\n")
	if err := os.WriteFile(path, []byte(b.String()), 0o644); err != nil {
		panic(err)
	}
}

// ---- types ----

func (g *rgen) rtypeOf(t types.Type, pos token.Pos, fn string) rtype {
	switch u := t.(type) {
	case *types.Pointer:
		if named, ok := u.Elem().(*types.Named); ok {
			name := named.Obj().Name()
			if name == "set" {
				ta := named.TypeArgs()
				if ta == nil || ta.Len() != 2 {
					// inside the generic declaration: the receiver itself
					tp := named.TypeParams()
					k := g.rtypeOf(tp.At(0), pos, fn)
					v := g.rtypeOf(tp.At(1), pos, fn)
					return rtype{k: rMap, key: &k, elem: &v}
				}
				k := g.rtypeOf(ta.At(0), pos, fn)
				v := g.rtypeOf(ta.At(1), pos, fn)
				if v.k == rPtr {
					v.k = rAddr // registry values are non-nil addresses (checked at every add)
				}
				return rtype{k: rMap, key: &k, elem: &v}
			}
			if _, ok := regHeap[name]; ok {
				return rtype{k: rPtr, heap: name}
			}
			if strings.HasSuffix(name, "Error") {
				return rtype{k: rErr}
			}
		}
	case *types.Named:
		switch u.Obj().Name() {
		case "NodeID", "CANID", "MessageID", "EntityID":
			return rtype{k: rNat}
		case "BusType":
			return rtype{k: rInt}
		case "error":
			return rtype{k: rErr}
		}
	case *types.Basic:
		switch {
		case u.Kind() == types.Int || u.Kind() == types.UntypedInt:
			return rtype{k: rInt}
		case u.Kind() == types.String || u.Kind() == types.UntypedString:
			return rtype{k: rStr}
		case u.Kind() == types.Bool || u.Kind() == types.UntypedBool:
			return rtype{k: rBool}
		}
	case *types.Map:
		k := g.rtypeOf(u.Key(), pos, fn)
		v := g.rtypeOf(u.Elem(), pos, fn)
		if v.k == rPtr {
			v.k = rAddr
		}
		return rtype{k: rMap, key: &k, elem: &v}
	case *types.Slice:
		v := g.rtypeOf(u.Elem(), pos, fn)
		return rtype{k: rSlice, elem: &v}
	case *types.TypeParam:
		return rtype{k: rTParam, name: u.Obj().Name()}
	}
	rdie(pos, fn, "Go type %s has no Lean counterpart", t.String())
	return rtype{}
}

// every field of the heap table exists in the Go struct (directly or through the embedded
// entity) with the type the prelude declares
func (g *rgen) checkHeap() {
	for name, hs := range regHeap {
		obj := g.pkg.Types.Scope().Lookup(name)
		if obj == nil {
			panic(rfail{"extract/registry: struct " + name + " not found"})
		}
		for fld, want := range hs.fields {
			o, _, _ := types.LookupFieldOrMethod(types.NewPointer(obj.Type()), true, g.pkg.Types, fld)
			v, ok := o.(*types.Var)
			if !ok {
				panic(rfail{"extract/registry: field " + name + "." + fld + " not found"})
			}
			got := g.rtypeOf(v.Type(), v.Pos(), name+"."+fld).lean()
			if got != want {
				panic(rfail{fmt.Sprintf("extract/registry: field %s.%s: Go type %s translates to `%s`, the prelude declares `%s`",
					name, fld, v.Type().String(), got, want)})
			}
		}
	}
}

// ---- effects: which methods write (the heap, or for set methods the map) ----

func (g *rgen) calleeKey(call *ast.CallExpr) string {
	sel, ok := call.Fun.(*ast.SelectorExpr)
	if !ok {
		return ""
	}
	s := g.info.Selections[sel]
	if s == nil {
		return ""
	}
	fnObj, ok := s.Obj().(*types.Func)
	if !ok {
		return ""
	}
	recv := fnObj.Type().(*types.Signature).Recv()
	if recv == nil {
		return ""
	}
	rt := recv.Type()
	if p, ok := rt.(*types.Pointer); ok {
		rt = p.Elem()
	}
	if n, ok := rt.(*types.Named); ok {
		return n.Obj().Name() + "." + fnObj.Name()
	}
	return ""
}

func (g *rgen) effects() {
	direct := func(key string, fd *ast.FuncDecl) bool {
		w := false
		ast.Inspect(fd.Body, func(n ast.Node) bool {
			switch s := n.(type) {
			case *ast.AssignStmt:
				for _, l := range s.Lhs {
					switch lx := l.(type) {
					case *ast.SelectorExpr:
						if g.isErrWrapperField(lx) {
							continue
						}
						if regIgnoredWrites[g.fieldKey(lx)] {
							continue
						}
						w = true
					case *ast.IndexExpr:
						if _, ok := lx.X.(*ast.SelectorExpr); ok {
							w = true
						}
					}
				}
			case *ast.CallExpr:
				if id, ok := s.Fun.(*ast.Ident); ok && id.Name == "delete" {
					if _, ok := s.Args[0].(*ast.SelectorExpr); ok {
						w = true
					}
				}
			}
			return true
		})
		return w
	}
	for _, k := range regWanted {
		g.writer[k] = direct(k, g.decls[k])
	}
	for changed := true; changed; {
		changed = false
		for _, k := range regWanted {
			if g.writer[k] {
				continue
			}
			ast.Inspect(g.decls[k].Body, func(n ast.Node) bool {
				if c, ok := n.(*ast.CallExpr); ok {
					if ck := g.calleeKey(c); ck != "" && g.writer[ck] {
						g.writer[k] = true
						changed = true
					}
				}
				return true
			})
		}
	}
}

func (g *rgen) fieldKey(sel *ast.SelectorExpr) string {
	t := g.info.TypeOf(sel.X)
	if p, ok := t.(*types.Pointer); ok {
		t = p.Elem()
	}
	if n, ok := t.(*types.Named); ok {
		return n.Obj().Name() + "." + sel.Sel.Name
	}
	return "?." + sel.Sel.Name
}

func (g *rgen) isErrWrapperField(sel *ast.SelectorExpr) bool {
	t := g.info.TypeOf(sel.X)
	if p, ok := t.(*types.Pointer); ok {
		if n, ok := p.Elem().(*types.Named); ok {
			return strings.HasSuffix(n.Obj().Name(), "Error")
		}
	}
	return false
}

// ---- one method ----

func (g *rgen) translate(key string) string {
	fd := g.decls[key]
	parts := strings.SplitN(key, ".", 2)
	isSet := parts[0] == "set"
	sig := &rsig{lean: parts[0] + "_" + parts[1], isSet: isSet, writer: g.writer[key]}
	f := &rfn{g: g, key: key, sig: sig, decl: fd, used: map[string]int{}, ordOf: map[*ast.RangeStmt]int{}}
	g.sigs[key] = sig
	env := &renv{heap: "h", cache: map[string]string{}, nonnil: map[string]string{}}
	if len(fd.Recv.List[0].Names) != 1 {
		f.die(fd.Pos(), "unnamed receiver")
	}
	f.recv = fd.Recv.List[0].Names[0].Name
	f.recvObj = g.info.Defs[fd.Recv.List[0].Names[0]]
	recvT := g.rtypeOf(g.info.TypeOf(fd.Recv.List[0].Type), fd.Pos(), key)
	var recvBind rbind
	if isSet {
		f.tparams = "{K V : Type} [DecidableEq K] "
		recvBind = rbind{obj: f.recvObj, goName: f.recv, term: f.fresh(f.recv), t: recvT}
	} else {
		if recvT.k != rPtr {
			f.die(fd.Pos(), "receiver is not a pointer to a heap struct")
		}
		recvT.k = rAddr // a method value is only ever called on an existing object (nil receiver: panic at the call site)
		recvBind = rbind{obj: f.recvObj, goName: f.recv, term: f.fresh(f.recv), t: recvT}
	}
	sig.params = append(sig.params, recvBind)
	env = env.bindObj(recvBind)
	for _, p := range fd.Type.Params.List {
		pt := g.rtypeOf(g.info.TypeOf(p.Type), p.Pos(), key)
		for _, nm := range p.Names {
			b := rbind{obj: g.info.Defs[nm], goName: nm.Name, term: f.fresh(nm.Name), t: pt}
			sig.params = append(sig.params, b)
			env = env.bindObj(b)
		}
	}
	if fd.Type.Results != nil {
		for _, r := range fd.Type.Results.List {
			n := len(r.Names)
			if n == 0 {
				n = 1
			}
			for i := 0; i < n; i++ {
				sig.results = append(sig.results, g.rtypeOf(g.info.TypeOf(r.Type), r.Pos(), key))
			}
		}
	}
	// order parameters: loops over a map snapshot with a return inside
	ast.Inspect(fd.Body, func(n ast.Node) bool {
		rs, ok := n.(*ast.RangeStmt)
		if !ok {
			return true
		}
		hasRet := false
		ast.Inspect(rs.Body, func(m ast.Node) bool {
			if _, ok := m.(*ast.ReturnStmt); ok {
				hasRet = true
			}
			return true
		})
		if hasRet && f.isSnapshotExpr(rs.X) {
			if isSet {
				f.die(rs.Pos(), "order-dependent loop in a set method")
			}
			et := g.rtypeOf(g.info.TypeOf(rs.X), rs.Pos(), key)
			if et.k == rMap {
				f.die(rs.Pos(), "order-dependent loop over map entries (only getValues snapshots)")
			}
			elem := *et.elem
			if elem.k == rPtr {
				elem.k = rAddr
			}
			ob := rbind{goName: "", term: f.fresh(fmt.Sprintf("ord%d", len(sig.ords)+1)), t: rtype{k: rSlice, elem: &elem}}
			f.ordOf[rs] = len(sig.ords)
			sig.ords = append(sig.ords, ob)
		}
		return true
	})
	body := f.stmts(fd.Body.List, env.deeper(), func(e *renv) string {
		// falling off the end: only for functions without results
		if len(sig.results) != 0 {
			f.die(fd.Body.Rbrace, "control reaches the end of a function with results")
		}
		return f.ret(e, nil, fd.Body.Rbrace)
	})
	var b strings.Builder
	for _, d := range f.defs {
		b.WriteString(d)
	}
	p := fset.Position(fd.Pos())
	b.WriteString(fmt.Sprintf("/-- %s (%s:%d) -/\n", key, filepath.Base(p.Filename), p.Line))
	b.WriteString("def " + sig.lean + " " + f.tparams + f.paramList(env, false) + " : " + f.resultType() + " :=\n")
	b.WriteString(body + "\n\n")
	return b.String()
}

func (f *rfn) paramList(env *renv, all bool) string {
	var ps []string
	if !f.sig.isSet {
		ps = append(ps, "(h : H)")
	}
	if all {
		for _, v := range env.vars {
			ps = append(ps, "("+v.term+" : "+v.t.lean()+")")
		}
	} else {
		for _, v := range f.sig.params {
			ps = append(ps, "("+v.term+" : "+v.t.lean()+")")
		}
	}
	for _, o := range f.sig.ords {
		ps = append(ps, "("+o.term+" : "+o.t.lean()+")")
	}
	return strings.Join(ps, " ")
}

func (f *rfn) valueType() string {
	var rs []string
	for _, r := range f.sig.results {
		if r.k == rTParam {
			rs = append(rs, "Option "+r.lean()) // a value, or the zero value of a missed look-up
		} else {
			rs = append(rs, r.lean())
		}
	}
	if f.sig.isSet {
		if f.sig.writer {
			if len(rs) != 0 {
				f.die(f.decl.Pos(), "a set method that writes and returns a value")
			}
			return f.sig.params[0].t.lean()
		}
		return strings.Join(rs, " × ")
	}
	if f.sig.writer {
		rs = append([]string{"H"}, rs...)
	}
	if len(rs) == 0 {
		return "Unit"
	}
	return strings.Join(rs, " × ")
}

func (f *rfn) resultType() string {
	if f.sig.isSet {
		return f.valueType()
	}
	return "Res (" + f.valueType() + ")"
}

// the value a `return` produces
func (f *rfn) ret(env *renv, vals []string, pos token.Pos) string {
	if f.sig.isSet {
		if f.sig.writer {
			return env.ind() + env.byObj(f.recvObj).term
		}
		return env.ind() + "(" + strings.Join(vals, ", ") + ")"
	}
	if f.sig.writer {
		vals = append([]string{env.heap}, vals...)
	}
	if len(vals) == 0 {
		return env.ind() + ".val ()"
	}
	return env.ind() + ".val (" + strings.Join(vals, ", ") + ")"
}

func (f *rfn) isSnapshotExpr(x ast.Expr) bool {
	switch e := x.(type) {
	case *ast.CallExpr:
		if sel, ok := e.Fun.(*ast.SelectorExpr); ok {
			k := f.g.calleeKey(e)
			return (k == "set.getValues" || k == "set.entries") && sel != nil
		}
	case *ast.Ident:
		// a local defined once by `x := m.getValues()`
		found := false
		ast.Inspect(f.decl.Body, func(n ast.Node) bool {
			if as, ok := n.(*ast.AssignStmt); ok && len(as.Lhs) == 1 && len(as.Rhs) == 1 {
				if id, ok := as.Lhs[0].(*ast.Ident); ok && id.Name == e.Name {
					if c, ok := as.Rhs[0].(*ast.CallExpr); ok {
						k := f.g.calleeKey(c)
						if k == "set.getValues" || k == "set.entries" {
							found = true
						}
					}
				}
			}
			return true
		})
		return found
	}
	return false
}
